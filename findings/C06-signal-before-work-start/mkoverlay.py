#!/usr/bin/env python3
"""Writes <dir>/overlay.json replacing the plugin SDK's atp/client.go by a copy that pauses before the work start write."""
import json, os, sys
out = sys.argv[1]
os.makedirs(out, exist_ok=True)
sdk = "/root/go/pkg/mod/go.flow.arcalot.io/pluginsdk@v0.14.3/atp/client.go"
s = open(sdk).read()
old = "\tif err := c.sendCBOR(workStartMsg); err != nil {"
assert s.count(old) == 1
s = s.replace(old, "\ttime.Sleep(20 * time.Millisecond) // the executing goroutine is not scheduled for a while\n" + old)
open(os.path.join(out, "client.go"), "w").write(s)
json.dump({"Replace": {sdk: os.path.join(out, "client.go")}}, open(os.path.join(out, "overlay.json"), "w"))
