"""C07 - run-time evaluation and step failures surface as errors, never as a crash."""
import random

from .. import gen, harness, mon, ref, runfam
from ..core import Check, derive_seed
from ..model import Expr, In, Ref, RawExpr, Lit, Bin, Call, Program, Step, InputSchema, Opt

C07_INPUT = InputSchema({
    "tag": {"type": "string"},
    "n": {"type": "integer", "required": False, "default": 3},
    "zero": {"type": "integer", "required": False, "default": 0},
    "big": {"type": "integer", "required": False, "default": 4611686018427387904},
    "opt": {"type": "string", "required": False},
    "optn": {"type": "integer", "required": False},
    "f": {"type": "float", "required": False, "default": 1.5},
    "strs": {"type": ("list", "string"), "required": False},
    "m": {"type": ("map", "string", "string"), "required": False},
    "items": {"type": ("list", ("object", "Item", {"tag": {"type": "string"}})), "required": False},
})

A_N = "$.steps.a.outputs.success.n"
A_REF = [Ref("a", "outputs", "success", "n")]

# (fault class, type of the expression, expression, input overrides)
FAULTS = [
    ("omitted-optional-input", "string", RawExpr("$.input.opt", [In("opt")]), {}),
    ("omitted-optional-int", "int", RawExpr("$.input.optn", [In("optn")]), {}),
    ("absent-optional-step-output-field", "float", RawExpr("$.steps.a.outputs.success.f", [Ref("a", "outputs", "success", "f")]), {}),
    ("index-out-of-range", "string", RawExpr("$.input.strs[3]", [In("strs")]), {"strs": ["x"]}),
    ("index-on-empty-list", "string", RawExpr("$.input.strs[0]", [In("strs")]), {"strs": []}),
    ("index-item-out-of-range", "string", RawExpr("$.input.items[2].tag", [In("items")]), {"items": [{"tag": "i0"}]}),
    ("dynamic-index-out-of-range", "string", RawExpr("$.input.strs[$.input.n]", [In("strs"), In("n")]), {"strs": ["x"], "n": 7}),
    ("missing-map-key", "string", RawExpr('$.input.m["nokey"]', [In("m")]), {"m": {"k": "v"}}),
    ("failing-conversion-stringToInt", "int", RawExpr("stringToInt($.input.tag)", [In("tag")]), {"tag": "x"}),
    ("failing-conversion-stringToFloat", "float", RawExpr("stringToFloat($.input.tag)", [In("tag")]), {"tag": "not-a-float"}),
    ("failing-conversion-stringToBool", "bool", RawExpr("stringToBool($.input.tag)", [In("tag")]), {"tag": "maybe"}),
    ("floatToInt-NaN", "int", RawExpr('floatToInt(stringToFloat("NaN"))', []), {}),
    ("int-division-by-zero", "int", RawExpr("$.input.n / $.input.zero", [In("n"), In("zero")]), {}),
    ("int-modulus-by-zero", "int", RawExpr("$.input.n % $.input.zero", [In("n"), In("zero")]), {}),
    ("int-overflow-mul", "int", RawExpr("$.input.big * $.input.big", [In("big")]), {}),
    ("int-overflow-add", "int", RawExpr("$.input.big + $.input.big", [In("big")]), {}),
    ("float-division-by-zero", "float", RawExpr("$.input.f / 0.0", [In("f")]), {}),
    ("readFile-missing", "string", RawExpr('readFile("does-not-exist.txt")', []), {}),
    ("plugin-int-arithmetic", "int", RawExpr(A_N + " + 1", A_REF), {}),
    ("plugin-int-function", "string", RawExpr("intToString(" + A_N + ")", A_REF), {}),
    ("plugin-int-comparison", "bool", RawExpr(A_N + " > 2", A_REF), {}),
    ("plugin-int-to-float", "float", RawExpr("intToFloat(" + A_N + ")", A_REF), {}),
    ("power-negative", "int", RawExpr("$.input.zero ^ (0 - 1)", [In("zero")]), {}),
]

WRAP = {  # expression of type T converted to the type a position needs
    ("int", "string"): "intToString(%s)", ("int", "bool"): "(%s) > 0", ("int", "float"): "intToFloat(%s)",
    ("float", "string"): "floatToString(%s)", ("float", "bool"): "(%s) > 0.0", ("float", "int"): "floatToInt(%s)",
    ("string", "int"): "stringToInt(%s)", ("string", "bool"): '(%s) == "x"', ("string", "float"): "stringToFloat(%s)",
    ("bool", "string"): "boolToString(%s)", ("bool", "int"): "stringToInt(boolToString(%s))", ("bool", "float"): "stringToFloat(boolToString(%s))",
}

POSITIONS = [("input.a.wait-optional", "any"), ("input.a.soft-optional", "any"), ("output.wait-optional", "any"), ("output.soft-optional", "any"), ("input.tag", "string"), ("input.n", "int"), ("input.f", "float"), ("input.b", "bool"), ("input.a", "any"), ("enabled", "bool"), ("stop_if", "bool"),
             ("deploy.tag", "string"), ("wait_for", "any"), ("closure_wait_timeout", "int"), ("output", "any"), ("foreach.items.tag", "string"), ("foreach.parallelism", "int")]


def typed(expr, have, want):
    if want == "any" or have == want:
        return expr
    return RawExpr(WRAP[(have, want)] % expr.text, expr.refs)


def fault_case(fclass, ftype, fexpr, overrides, pos, ptype):
    e = Expr(typed(fexpr, ftype, ptype))
    if pos.endswith("-optional"):
        opt = Opt(typed(fexpr, ftype, ptype), pos.endswith("wait-optional"))
        pos = pos.rsplit(".", 1)[0]
        if pos == "input.a":
            b = gen.plugin_step("b", Expr(In("tag")), extra_input={"a": {"x": opt}})
            a = gen.plugin_step("a", Expr(In("tag")), extra_input={"n": Expr(In("n"))})
            prog = Program([a, b], {"success": {"b": gen.tagref("b"), "a": gen.tagref("a")}}, C07_INPUT)
        else:
            a = gen.plugin_step("a", Expr(In("tag")), extra_input={"n": Expr(In("n"))})
            prog = Program([a], {"success": {"v": {"x": opt}, "a": gen.tagref("a")}}, C07_INPUT)
        inp = {"tag": "T1"}
        inp.update(overrides)
        kind = "wait" if opt.wait else "soft"
        return {"program": prog, "scripts": gen.make_scripts(prog.steps, {}), "input": inp, "shape": "%s@%s.%s-optional" % (fclass, pos, kind), "outcome": {}, "fault": (fclass, pos + "." + kind + "-optional")}
    a = gen.plugin_step("a", Expr(In("tag")), extra_input={"n": Expr(In("n"))})
    steps = [a]
    outs = {}
    if pos.startswith("foreach"):
        sub = gen.sub_program("sub.yaml", 1)
        fe = Step("loop", "foreach", sub=sub, items=[{"tag": e if pos.endswith("tag") else "i0"}, {"tag": "i1"}])
        if pos.endswith("parallelism"):
            fe.fields["parallelism"] = e
        steps.append(fe)
        outs["success"] = {"d": Expr(Ref("loop", "outputs", "success", "data")), "a": gen.tagref("a")}
        outs["failed"] = {"e": Expr(Ref("loop", "failed", "error"))}
    elif pos == "output":
        outs["success"] = {"v": e, "a": gen.tagref("a")}
    else:
        b = gen.plugin_step("b", Expr(In("tag")))
        if pos.startswith("input."):
            b.fields["input"][pos.split(".")[1]] = e
        elif pos == "deploy.tag":
            b.fields["deploy"] = {"deployer_name": "scripted", "tag": e}
        else:
            b.fields[pos] = e
        steps.append(b)
        outs["success"] = {"b": gen.tagref("b"), "a": gen.tagref("a")}
        outs["b_failed"] = {"why": Expr(Ref("b", "crashed", "error", "output"))}
    prog = Program(steps, outs, C07_INPUT)
    inp = {"tag": "T1"}
    inp.update(overrides)
    return {"program": prog, "scripts": gen.make_scripts(steps, {}), "input": inp, "shape": "%s@%s" % (fclass, pos), "outcome": {}, "fault": (fclass, pos)}


MISBEHAVE = ["undeclared", "illtyped", "nildata", "serverfatal", "drop", "crash", "error"]
DEPLOY_FAULTS = [{"hello": "eof"}, {"hello": "garbage"}, {"hello": "badversion"}, {"hello": "badschema"}, {"schema": "mismatch"}, {"schema": "renamed"},
                 {"write_err": True}, {"close_err": "scripted close error"}, {"fail": "deploy error"}]


def misbehaving_cases(check):
    out = []
    for shape, fn in (("chain3", lambda rng: gen.shape_chain(rng, 3)), ("diamond", gen.shape_diamond), ("foreach_after", gen.shape_foreach_after), ("fan_in_step4", lambda rng: gen.shape_fan_in_step(rng, 4))):
        rng = random.Random(derive_seed(check.seed, "c07-mis", shape))
        steps0, _ = fn(rng)
        srcs = []
        for s in steps0:
            if s.kind == "plugin":
                srcs.append(s.src)
            elif s.sub:
                srcs += [x.src for x in s.sub.steps]
        for src in srcs:
            for mb in MISBEHAVE:
                rng = random.Random(derive_seed(check.seed, "c07-mis", shape))
                steps, outs = fn(rng)
                gen.add_error_outputs(rng, steps, outs, {}, maxn=2)
                scripts = gen.make_scripts(steps, {})
                scripts.setdefault(src, {})["exec"] = {"outcome": mb}
                out.append({"program": Program(steps, outs, gen.BASE_INPUT), "scripts": scripts, "input": gen.base_input(rng), "shape": "%s/%s@%s" % (shape, mb, src), "outcome": {src: mb}, "fault": (mb, shape + "@" + src)})
            for df in DEPLOY_FAULTS:
                rng = random.Random(derive_seed(check.seed, "c07-mis", shape))
                steps, outs = fn(rng)
                scripts = gen.make_scripts(steps, {})
                scripts.setdefault(src, {})["deploys"] = [{}, dict(df)]
                k = sorted(df.items())[0]
                out.append({"program": Program(steps, outs, gen.BASE_INPUT), "scripts": scripts, "input": gen.base_input(rng), "shape": "%s/run-deploy:%s=%s@%s" % (shape, k[0], k[1], src), "outcome": {}, "fault": ("%s=%s" % k, shape + "@" + src)})
    return out


def run(check):
    check.rule = ("(A) %d run-time evaluation fault classes (omitted optional values, index/key faults, failing conversions, integer division/modulus by zero, "
                  "overflow, missing files, arithmetic and functions on integers that came back from a plugin) placed at %d positions (step input fields of each "
                  "type, enabled, stop_if, deploy, wait_for, closure timeout, workflow output, foreach items and parallelism), type-adapted so that Prepare accepts "
                  "them; (B) misbehaving plugins (undeclared output id, ill-typed data, nil data, step-fatal and server-fatal errors, dropped connection) at every "
                  "step of 4 shapes and protocol faults at the run-time deployment; oracle: the child process must not die by panic / fatal error (and must not "
                  "hang); (C) results that appear only because the run is being terminated and reach steps that are being closed; (D) explicit output schemas that do not fit the workflow (missing root object, dangling reference, other types); (G) a step closed while its input is being handed over (delay at the hand-over point); (J) hand-written texts: string defaults that stay non-JSON when quoted, expressions faulting inside reflective calls; (I) several workflow outputs producible in the same delivery round; (H) the misbehaving-plugin cases again with the engine configured to log step outputs (logged_outputs); (F) stage inputs written as plain constants on loop and plugin steps; (E) whole stage inputs (loop items, parallelism, wait_for, closure timeout, stop_if, enabled) that are wait-optional and absent at run time; non-trivial = a fault was injected and the workflow was accepted; distinct = (fault class, position)") % (len(FAULTS), len(POSITIONS))
    check.assumptions = ["workflow inputs are schema-valid", "a rejected workflow is not a violation but is counted (coverage lost)"]
    gs = []
    for (fclass, ftype, fexpr, ov) in FAULTS:
        for (pos, ptype) in POSITIONS:
            gs.append(fault_case(fclass, ftype, fexpr, ov, pos, ptype))
    gs += misbehaving_cases(check)
    # (I) several workflow outputs that become producible in the same delivery round (they need the same step result, or only
    # the workflow input)
    for j in range(check.pick(12, 60)):
        rng = random.Random(derive_seed(check.seed, "c07-multi-out", j))
        a = gen.plugin_step("a", Expr(In("tag")))
        b = gen.plugin_step("b", gen.tagref("a"))
        kind = j % 4
        if kind == 0:
            outs = {"one": {"a": gen.tagref("a")}, "two": {"also": gen.tagref("a")}, "three": {"n": Expr(Ref("a", "outputs", "success"))}}
        elif kind == 1:
            outs = {"early": {"t": Expr(In("tag"))}, "early2": {"t2": Expr(In("tag")), "c": "constant"}, "later": {"b": gen.tagref("b")}}
        elif kind == 2:
            outs = {"x": {"b": gen.tagref("b"), "a": gen.tagref("a")}, "y": {"b": gen.tagref("b")}, "z": {"b": Expr(Ref("b", "outputs", "success"))}, "w": {"b2": gen.tagref("b")}}
        else:
            outs = {"failed": {"why": Expr(Ref("a", "outputs", "error", "reason"))}, "failed_too": {"r": Expr(Ref("a", "outputs", "error"))}, "ok": {"b": gen.tagref("b")}}
        steps = [a, b]
        rng.shuffle(steps)
        gs.append({"program": Program(steps, outs, gen.BASE_INPUT), "scripts": gen.make_scripts(steps, {"a": "error"} if kind == 3 else {}), "input": gen.base_input(rng), "shape": "outputs-ready-together/%d" % kind,
                   "outcome": {}, "fault": ("several-outputs-ready-together", "kind %d" % kind)})
    # (H) the engine is configured to log the outputs of steps (logged_outputs): every plugin result, declared or not, is
    # also formatted for the log
    for g in misbehaving_cases(check):
        if g["fault"][0] in ("error", "alt", "success", "undeclared", "illtyped", "nildata", "crash"):
            gs.append(dict(g, shape="logged/" + g["shape"], fault=("logged-" + g["fault"][0], g["fault"][1]), logged_outputs={"success": 0, "error": 0, "nonsense": 0}))
    for rep in range(check.pick(30, 120)):
        for par in (8, 64):
            sub = gen.sub_program("sub.yaml", 1)
            fe = Step("loop", "foreach", sub=sub, items=Expr(In("items")), parallelism=par)
            prog = Program([fe], {"success": {"d": Expr(Ref("loop", "outputs", "success", "data"))}, "failed": {"e": Expr(Ref("loop", "failed", "error"))}}, gen.BASE_INPUT)
            scripts = gen.make_scripts([fe], {})
            scripts["sub_w0"]["exec"] = {"outcome": "crash"}
            gs.append({"program": prog, "scripts": scripts, "input": {"tag": "T", "items": [{"tag": "i%d" % k} for k in range(64)]}, "shape": "foreach-64-items-all-crash/par%d" % par,
                       "outcome": {}, "fault": ("many-failing-items-in-parallel", "foreach par=%d rep=%d" % (par, rep))})
    # (C) results that only appear because the run is being terminated: the run ends on a quick step (with an output, or with
    # an evaluation error), its termination cancels a never-ending step, which then reports an output that other steps
    # (loop, plugin, wait_for consumer) were waiting for - their input arrives while or after they are being closed
    for rep in range(check.pick(60, 400)):
        rng = random.Random(derive_seed(check.seed, "c07-late", rep))
        on_cancel = rng.choice(["success", "success", "error"])
        ref_h = Ref("h", "outputs", "success", "tag") if on_cancel == "success" else Ref("h", "outputs", "error", "reason")
        q = gen.plugin_step("q", Expr(In("tag")))
        h = gen.plugin_step("h", Expr(In("tag")))
        steps = [q, h]
        kinds = rng.sample(["loop", "plugin", "wait_for", "loop2"], rng.choice([1, 2, 3]))
        for k in kinds:
            if k.startswith("loop"):
                sub = gen.sub_program("sub_%s.yaml" % k, 1)
                steps.append(Step(k, "foreach", sub=sub, items=[{"tag": Expr(ref_h)}, {"tag": Expr(In("tag"))}], parallelism=rng.choice([1, 2])))
            elif k == "plugin":
                steps.append(gen.plugin_step("p", Expr(ref_h)))
            else:
                steps.append(gen.plugin_step("w", Expr(In("tag")), wait_for=Expr(ref_h)))
        ending = rng.choice(["output", "output", "evalfault"])
        outs = {"success": {"q": gen.tagref("q")}}
        if ending == "evalfault":
            outs["success"]["z"] = Expr(Call("stringToInt", Ref("q", "outputs", "success", "tag")))
        rng.shuffle(steps)
        prog = Program(steps, outs, gen.BASE_INPUT)
        scripts = gen.make_scripts(steps, {})
        scripts["h"]["exec"] = {"outcome": "hang", "on_cancel": on_cancel}
        gs.append({"program": prog, "scripts": scripts, "input": gen.base_input(rng), "shape": "late-result/%s/%s/%s" % (ending, on_cancel, "+".join(sorted(kinds))), "outcome": {},
                   "fault": ("result-produced-by-termination", "%s %s" % (on_cancel, "+".join(sorted(kinds))))})
    # (G) a step closed while its input is being handed over (delay at the hand-over point); (F) stage inputs written as plain constants on loop and plugin steps; (E) whole stage inputs that are absent at run time: a wait-optional value for a loop's items / parallelism or a step's
    # wait_for / closure timeout whose source is disabled or fails, so nothing is there when the stage is due
    for src_outcome in ("disabled", "error", "crash", "success"):
        for pos in ("items", "parallelism", "wait_for", "closure_wait_timeout", "stop_if", "enabled"):
            g_ = gen.plugin_step("g", Expr(In("tag")), extra_input={"l": ["x", "y"], "n": Expr(In("n")), "b": True, "a": [{"tag": "i0"}, {"tag": "i1"}]})
            if src_outcome == "disabled":
                g_.fields["enabled"] = Expr(Bin("==", In("tag"), Lit("never")))
            steps = [g_]
            outs = {"gone": {"m": Expr(Ref("g", "disabled", "output", "message"))}, "g_failed": {"why": Expr(Ref("g", "outputs", "error", "reason"))}, "g_crashed": {"why": Expr(Ref("g", "crashed", "error", "output"))}}
            if pos in ("items", "parallelism"):
                sub = gen.sub_program("sub.yaml", 1)
                fe = Step("loop", "foreach", sub=sub, items=[{"tag": "i0"}, {"tag": "i1"}])
                if pos == "items":
                    # items computed from the workflow input and the source's result (list of {item, constant})
                    sub = Program([gen.plugin_step("w0", Expr(In("item", "tag")), src="sub_w0")], {"success": {"t": gen.tagref("w0"), "c": Expr(In("constant"))}},
                                  InputSchema({"item": {"type": ("object", "Item", {"tag": {"type": "string"}})}, "constant": {"type": "string"}}, root="Bound"), name="sub.yaml")
                    fe = Step("loop", "foreach", sub=sub, items=Opt(Call("bindConstants", In("items"), Ref("g", "outputs", "success", "tag")), True))
                else:
                    fe.fields["parallelism"] = Opt(Ref("g", "outputs", "success", "n"), True)
                steps.append(fe)
                outs["success"] = {"d": Expr(Ref("loop", "outputs", "success", "data"))}
                outs["failed"] = {"e": Expr(Ref("loop", "failed", "error"))}
            else:
                b = gen.plugin_step("b", Expr(In("tag")))
                b.fields[pos] = Opt({"wait_for": Ref("g", "outputs", "success"), "closure_wait_timeout": Ref("g", "outputs", "success", "n"), "stop_if": Ref("g", "outputs", "success", "b"),
                                     "enabled": Ref("g", "outputs", "success", "b")}[pos], True)
                steps.append(b)
                outs["success"] = {"b": gen.tagref("b")}
                outs["b_closed"] = {"c": Expr(Ref("b", "closed", "result"))}
            prog = Program(steps, outs, C07_INPUT)
            scripts = gen.make_scripts(steps, {"g": src_outcome} if src_outcome in ("error", "crash") else {})
            gs.append({"program": prog, "scripts": scripts, "input": {"tag": "T1", "items": [{"tag": "i0"}, {"tag": "i1"}]}, "shape": "absent-stage-input/%s/source-%s" % (pos, src_outcome), "outcome": {},
                       "fault": ("absent-stage-input", "%s source %s" % (pos, src_outcome))})
    # (G) the run ends on a step's output in the very delivery round in which a loop (or another step) is handed its input, and
    # that hand-over takes a moment: the step is closed while its input is on the way
    for rep in range(check.pick(300, 1500)):
        rng = random.Random(derive_seed(check.seed, "c07-handover", rep))
        q = gen.plugin_step("q", Expr(In("tag")))
        kind = rng.choice(["loop", "loop", "loop", "plugin"])
        if kind == "loop":
            sub = gen.sub_program("sub.yaml", 1)
            other = Step("loop", "foreach", sub=sub, items=[{"tag": gen.tagref("q")}, {"tag": "k"}], parallelism=rng.choice([1, 2]))
            point = "fe:runningStep.ProvideStageInput:send#1"
        else:
            other = gen.plugin_step("p", gen.tagref("q"))
            point = rng.choice(["pl:runningStep.ProvideStageInput:lock#1", "pl:runningStep.provideStartingInput:send#1"])
        steps = [q, other]
        rng.shuffle(steps)
        prog = Program(steps, {"success": {"q": gen.tagref("q")}}, gen.BASE_INPUT)
        gs.append({"program": prog, "scripts": gen.make_scripts(steps, {}), "input": gen.base_input(rng), "shape": "input-handed-over-while-closing/%s@%s" % (kind, point), "outcome": {},
                   "fault": ("input-handed-over-while-closing", kind), "plan": {"sites": [{"point": point, "hit": h, "ms": 40} for h in (1, 2, 3)], "record": True}})
    # (F) constants where expressions are usual: `enabled`, `parallelism`, `closure_wait_timeout`, `stop_if` written as plain YAML
    # values on loop and plugin steps (constants reach the providers as text)
    for kind in ("foreach", "plugin"):
        for field, values in (("enabled", [True, False, "true", "false", "yes", 1]), ("parallelism", [1, 2, "2"]), ("closure_wait_timeout", [0, 50, "50"]), ("stop_if", [False, "false"])):
            if (kind == "foreach") != (field in ("enabled", "parallelism")) and field != "enabled":
                continue
            for v in values:
                if kind == "foreach":
                    sub = gen.sub_program("sub.yaml", 1)
                    st = Step("loop", "foreach", sub=sub, items=[{"tag": "i0"}, {"tag": "i1"}])
                    outs = {"success": {"d": Expr(Ref("loop", "outputs", "success", "data"))}, "skipped": {"m": Expr(Ref("loop", "disabled", "output", "message"))}}
                else:
                    st = gen.plugin_step("b", Expr(In("tag")))
                    outs = {"success": {"b": gen.tagref("b")}, "skipped": {"m": Expr(Ref("b", "disabled", "output", "message"))}, "closed": {"c": Expr(Ref("b", "closed", "result"))}}
                st.fields[field] = v
                prog = Program([st], outs, C07_INPUT)
                gs.append({"program": prog, "scripts": gen.make_scripts([st], {}), "input": {"tag": "T1"}, "shape": "constant-stage-input/%s.%s=%r" % (kind, field, v), "outcome": {},
                           "fault": ("constant-stage-input", "%s.%s=%r" % (kind, field, v))})
    # (D) explicit output schemas that do not fit the workflow: refused at preparation or an error of the run, never a crash
    def obj(oid, props):
        return {"id": oid, "properties": {k: {"type": t} for k, t in props.items()}}
    STR = {"type_id": "string"}
    bad_schemas = {
        "root-object-missing": {"root": "Missing", "objects": {"Present": obj("Present", {"t": STR})}},
        "no-objects": {"root": "R", "objects": {}},
        "reference-to-missing-object": {"root": "R", "objects": {"R": obj("R", {"t": {"type_id": "ref", "id": "Nope"}})}},
        "field-of-other-type": {"root": "R", "objects": {"R": obj("R", {"t": {"type_id": "integer"}})}},
        "required-field-not-produced": {"root": "R", "objects": {"R": obj("R", {"t": STR, "more": STR})}},
        "produced-field-not-declared": {"root": "R", "objects": {"R": obj("R", {"other": STR})}},
        "list-where-string": {"root": "R", "objects": {"R": obj("R", {"t": {"type_id": "list", "items": STR}})}},
        "self-referencing-object": {"root": "R", "objects": {"R": obj("R", {"t": STR, "again": {"type_id": "ref", "id": "R"}})}},
        # a fitting schema whose reference is exercised by the produced data
        "reference-used-by-the-data": {"root": "R", "objects": {"R": obj("R", {"t": {"type_id": "ref", "id": "Sub"}}), "Sub": obj("Sub", {"x": STR})}},
    }
    for name, sch in sorted(bad_schemas.items()):
        for flag in (None, True):
            a = gen.plugin_step("a", Expr(In("tag")))
            entry = {"schema": sch}
            if flag:
                entry["error"] = True
            data = {"t": {"x": gen.tagref("a")}} if name == "reference-used-by-the-data" else {"t": gen.tagref("a")}
            prog = Program([a], {"success": data}, gen.BASE_INPUT, output_schema={"success": entry})
            gs.append({"program": prog, "scripts": gen.make_scripts([a], {}), "input": gen.base_input(random.Random(1)), "shape": "explicit-output-schema/%s%s" % (name, "/error-flag" if flag else ""),
                       "outcome": {}, "fault": ("explicit-output-schema", name)})
    items = []
    for i, g in enumerate(gs):
        prog = g["program"]
        case = {"id": "c07-%05d" % i, "files": prog.files(), "scripts": g["scripts"], "runs": [{"input": g["input"]}]}
        if g.get("plan"):
            case["plan"], case["plan_scope"] = g["plan"], "execute"
        if g.get("logged_outputs"):
            case["logged_outputs"] = g["logged_outputs"]
        items.append((case, None, g))
    # (J) texts written by hand: string defaults that are not JSON even when put in quotes (input section, sub-workflow input,
    # explicit output schema) with inputs that leave properties out, and expressions whose evaluation faults inside a reflective
    # call (a list of strings where a list of anything is declared, an integer key on a map keyed by machine integers)
    STEP = '  w: {plugin: {src: leaf_w, deployment_type: scripted}, input: {tag: !expr "$.input.tag"}}\n'
    def wf(props, outs, steps=STEP, root="RootObject", tail=""):
        return "version: v0.2.0\ninput: {root: %s, objects: {%s: {id: %s, properties: {tag: {type: {type_id: string}}%s}}}}\nsteps:\n%soutputs:\n%s%s" % (root, root, root, props, steps, outs, tail)
    OUT = '  success: {t: !expr "$.steps.w.outputs.success.tag"}\n'
    LOOP = '  loop: {kind: foreach, workflow: sub.yaml, items: !expr "$.input.items"}\n'
    ITEMS = ", items: {required: false, type: {type_id: list, items: {type_id: object, id: Item, properties: {tag: {type: {type_id: string}}}}}}"
    raw = []
    for k, dflt in enumerate(["'say \"hi\"'", "'back\\slash'", "\"line\\nbreak\"", "plain", "'\"quoted\"'", "''"]):
        prop = ", s: {required: false, default: %s, type: {type_id: string}}, other: {required: false, type: {type_id: string}}" % dflt
        raw.append(("string-default/input/%d" % k, {"workflow.yaml": wf(prop, OUT)}, {"tag": "T"}))
        raw.append(("string-default/sub-workflow-input/%d" % k, {"workflow.yaml": wf(ITEMS, '  success: {d: !expr "$.steps.loop.outputs.success.data"}\n', steps=LOOP), "sub.yaml": wf(prop, OUT, root="Item")},
                    {"tag": "T", "items": [{"tag": "i0"}]}))
        raw.append(("string-default/output-schema/%d" % k, {"workflow.yaml": wf("", OUT, tail="outputSchema:\n  success:\n    schema: {root: R, objects: {R: {id: R, properties: {t: {type: {type_id: string}}, s: {required: false, default: %s, type: {type_id: string}}}}}}\n" % dflt)},
                    {"tag": "T"}))
    FAULTY = ['!expr \'bindConstants(splitString($.input.tag, ","), 1)\'', '!expr \'bindConstants(splitString($.steps.w.outputs.success.tag, "("), $.input.tag)\'',
              '!expr "$.steps.loop.failed.error.errors[0]"', '!expr "$.steps.loop.failed.error.data[0]"', '!expr "$.steps.loop.failed.error.errors[\\"0\\"]"']
    for k, ex in enumerate(FAULTY):
        if "loop" in ex:
            files = {"workflow.yaml": wf(ITEMS, "  success: {d: !expr \"$.steps.loop.outputs.success.data\"}\n  failed: {e: %s}\n" % ex, steps=LOOP), "sub.yaml": wf("", OUT, root="Item")}
            raw.append(("reflective-fault/%d" % k, files, {"tag": "T", "items": [{"tag": "bad"}, {"tag": "i1"}]}))
        else:
            raw.append(("reflective-fault/%d" % k, {"workflow.yaml": wf("", "  success: {v: %s}\n" % ex)}, {"tag": "a,b"}))
            raw.append(("reflective-fault/items/%d" % k, {"workflow.yaml": wf("", '  success: {d: !expr "$.steps.loop.outputs.success.data"}\n', steps=STEP + "  loop: {kind: foreach, workflow: sub.yaml, items: %s}\n" % ex),
                                                          "sub.yaml": wf("", OUT, root="Item").replace("tag: {type: {type_id: string}}", "item: {type: {type_id: any}}, constant: {type: {type_id: any}}").replace('"$.input.tag"', '"$.input.constant"')}, {"tag": "a,b"}))
    # one-of options that are themselves optional values on a step that is not there yet (or never), and loop parallelism
    # values of zero and below taken from the input
    SLOW = '  w: {plugin: {src: leaf_w, deployment_type: scripted}, input: {tag: !expr "$.input.tag"}}\n  s: {plugin: {src: slow_s, deployment_type: scripted}, input: {tag: !expr "$.input.tag"}}\n'
    for k, (o1, o2) in enumerate([('!soft-optional "$.steps.s.outputs.success"', '!expr "$.steps.w.outputs.error"'), ('!wait-optional "$.steps.s.outputs.error"', '!expr "$.steps.s.outputs.success"'),
                                   ('!soft-optional "$.steps.s.outputs.success.tag"', '!soft-optional "$.steps.w.outputs.success.tag"'), ('!soft-optional "$.steps.w.outputs.error"', '!soft-optional "$.steps.s.outputs.error"')]):
        raw.append(("oneof-of-optionals/output/%d" % k, {"workflow.yaml": wf("", '  success: {t: !expr "$.steps.w.outputs.success.tag", v: !oneof {discriminator: which, one_of: {a: %s, b: %s}}}\n' % (o1, o2), steps=SLOW)}, {"tag": "T"}))
        raw.append(("oneof-of-optionals/wait_for/%d" % k, {"workflow.yaml": wf("", OUT, steps=SLOW.replace('input: {tag: !expr "$.input.tag"}}\n  s:', 'input: {tag: !expr "$.input.tag"}, wait_for: !oneof {discriminator: which, one_of: {a: %s, b: %s}}}\n  s:' % (o1.replace("steps.w", "steps.s"), o2.replace("steps.w", "steps.s")), 1))}, {"tag": "T"}))
    PAR = ", par: {required: false, default: \"1\", type: {type_id: integer}}"
    for k, par in enumerate([-1, 0, -9223372036854775808, 2]):
        files = {"workflow.yaml": wf(ITEMS + PAR, '  success: {d: !expr "$.steps.loop.outputs.success.data"}\n  failed: {e: !expr "$.steps.loop.failed.error"}\n', steps=LOOP.replace("items:", "parallelism: !expr \"$.input.par\", items:")), "sub.yaml": wf("", OUT, root="Item")}
        raw.append(("parallelism-from-input/%d" % par, files, {"tag": "T", "par": par, "items": [{"tag": "i0"}, {"tag": "i1"}]}))
    for shape, files, inp in raw:
        scripts = {"leaf_w": {"exec_by_tag": {"bad": {"outcome": "crash"}}}, "slow_s": {"deploys": [{}, {"delay_ms": 40}]}}
        case = {"id": "c07-%05d" % len(items), "files": files, "scripts": scripts, "runs": [{"input": inp}]}
        items.append((case, None, {"shape": "hand-written/" + shape, "fault": ("hand-written:" + shape.split("/")[0], shape), "program": None, "outcome": {}}))
    stats = {"accepted": 0, "rejected": 0, "returned_error": 0, "returned_output": 0, "crashes": 0, "rejected_classes": {}}
    with harness.Runner() as rn:
        if not rn.hang_oracle_works():
            check.fail_broken("the hang oracle (Go runtime deadlock report) does not fire in this build")
        out = rn.run_cases([c for c, _s, _g in items], per_case_timeout=60)
    by_id = {c["id"]: (c, g) for c, _s, g in items}
    for cid in sorted(out):
        o = out[cid]
        case, g = by_id[cid]
        check.count()
        if "death" in o:
            d = o["death"]
            stats["crashes"] += 1
            if d["kind"] in ("panic", "fatal"):
                key = "%s:%s" % (d["key"], g["fault"][0])
                check.report(key, "child died with %s in case %s (%s): %s" % (d["kind"], cid, g["shape"], d.get("message", "")[:300]),
                             {"case": case, "death": {k: d[k] for k in ("kind", "key")}, "detail": d.get("detail", "")[:3000]})
                check.nontrivial(g["shape"])
            elif d["kind"] == "deadlock":
                check.report("hang@%s" % g["fault"][0], "run hung in case %s (%s): %s" % (cid, g["shape"], d["key"]), {"case": case, "detail": d.get("detail", "")[:3000]})
            else:
                check.inconclusive_case(cid, "%s %s" % (d["kind"], d["key"]))
            continue
        res = o["result"]
        if res.get("parse_err") or res.get("prepare_err"):
            stats["rejected"] += 1
            stats["rejected_classes"][g["shape"]] = (res.get("parse_err") or res.get("prepare_err"))[:160]
            continue
        stats["accepted"] += 1
        check.nontrivial(g["shape"])
        run = res["runs"][0]
        stats["returned_error" if run.get("err") else "returned_output"] += 1
        if "invalid workflow input" in (run.get("err") or ""):
            stats["input_rejected"] = stats.get("input_rejected", 0) + 1
        if len(check.samples) < 5 and run.get("err") and g["fault"][0] not in [s.get("fault") for s in check.samples]:
            check.sample({"case": cid, "fault": g["fault"][0], "position": g["fault"][1], "result": (run.get("err") or run.get("out_id"))[:200]})
    check.extra.update(stats)
    check.extra["rejected_classes"] = dict(list(stats["rejected_classes"].items())[:40])
    if stats.get("input_rejected"):
        check.fail_broken("%d runs were refused as 'invalid workflow input': the generator's inputs must be schema-valid" % stats["input_rejected"])
    if stats["accepted"] < len(items) // 3:
        check.fail_broken("only %d of %d programs were accepted" % (stats["accepted"], len(items)))
