"""C08 - accepted workflows are type-sound: every value matches its declared schema."""
import json
import random

from .. import gen, harness, mon, ref, runfam
from ..core import Check, derive_seed
from ..model import Expr, In, Ref, Not, Lit, Bin, Program, Step

# (provider, stage, output) -> {field: type}
PAIRS = {
    ("plugin", "enabling", "resolved"): {"enabled": "bool"},
    ("plugin", "enabling", "resolved#disabled"): {"enabled": "bool"},
    ("plugin", "starting", "started"): {},
    ("plugin", "disabled", "output"): {"message": "string"},
    ("plugin", "outputs", "success"): {"tag": "string", "n": "int", "f": "float", "b": "bool", "l": "list", "o": "object", "a": "any"},
    ("plugin", "outputs", "error"): {"reason": "string"},
    ("plugin", "outputs", "alt"): {"tag": "string"},
    ("plugin", "crashed", "error"): {"output": "string"},
    ("plugin", "crashed", "error#start-failed"): {"output": "string"},
    ("plugin", "deploy_failed", "error"): {"error": "string"},
    ("plugin", "closed", "result"): {"cancelled": "bool", "close_requested": "bool"},
    ("foreach", "enabling", "resolved"): {"enabled": "bool"},
    ("foreach", "disabled", "output"): {"message": "string"},
    ("foreach", "outputs", "success"): {"data": "any"},
    ("foreach", "failed", "error"): {"data": "any", "errors": "any"},
    ("foreach", "failed", "error#other-output"): {"data": "any", "errors": "any"},
}
UNREACHABLE = {("foreach", "closed", "result"): "a foreach step is only closed when the run ends, so no expression can observe closed.result before the result is decided"}

TYPED_FIELD = {"string": "tag", "int": "n", "float": "f", "bool": "b", "list": "l", "object": "o", "any": "a"}


def source(pair):
    """Builds the source step X (plus helpers) and the outcome that makes `pair` get produced."""
    prov, stage, output = pair
    variant = ""
    if "#" in output:
        output, variant = output.split("#")
    steps, outcome, extra_scripts = [], {}, {}
    rich = {"n": Expr(In("n")), "f": 2.5, "b": True, "l": ["x", "y"], "o": {"s": "str", "i": 4}, "a": {"k": [1, "two", 3.5, False]}}
    if prov == "plugin":
        x = gen.plugin_step("X", Expr(In("tag")), extra_input=rich)
        if stage == "disabled" or variant == "disabled":
            x.fields["enabled"] = Expr(Not(In("flag")))
        elif stage == "outputs" and output != "success":
            outcome["X"] = output
        elif stage == "crashed" and variant == "start-failed":
            extra_scripts["X"] = {"deploys": [{}, {"schema": "mismatch"}]}
        elif stage == "crashed":
            outcome["X"] = "crash"
        elif stage == "deploy_failed":
            outcome["X"] = "deployfail"
        elif stage == "closed":
            steps += [gen.plugin_step("S", Expr(In("tag"))), gen.plugin_step("S2", gen.tagref("S"))]
            x = gen.plugin_step("X", gen.tagref("S2"), stop_if=Expr(Ref("S", "outputs", "success", "tag")))
            x.stop_mode = "before"
        steps.append(x)
    else:
        sub = gen.sub_program("sub.yaml", 1, other_output="skipped" if variant == "other-output" else None)
        x = Step("X", "foreach", sub=sub, items=Expr(In("items")), parallelism=2)
        if stage == "disabled":
            x.fields["enabled"] = Expr(Not(In("flag")))
        elif stage == "failed" and variant == "other-output":
            extra_scripts["sub_w0"] = {"exec_by_tag": {"i1": {"outcome": "alt"}}}
        elif stage == "failed":
            extra_scripts["sub_w0"] = {"exec_by_tag": {"i1": {"outcome": "error"}}}
        steps.append(x)
    return steps, outcome, extra_scripts, stage, output


def build(pair, consumer, field):
    steps, outcome, extra, stage, output = source(pair)
    path = [field] if field else []
    r = Ref("X", stage, output, *path)
    outs = {}
    ftype = PAIRS[pair].get(field, "object") if field else "object"
    if consumer == "wf-output":
        outs["observed"] = {"v": Expr(r)}
    else:
        c = gen.plugin_step("C", Expr(In("tag")))
        if consumer == "any-input":
            c.fields["input"]["a"] = Expr(r)
        else:
            c.fields["input"][TYPED_FIELD[ftype]] = Expr(r)
        steps.append(c)
        outs["observed"] = {"c": Expr(Ref("C", "outputs", "success"))}
    prog = Program(steps, outs, gen.BASE_INPUT)
    scripts = gen.make_scripts(steps, outcome, extra)
    inp = {"tag": "T1", "n": 7, "flag": True, "items": [{"tag": "i0"}, {"tag": "i1"}, {"tag": "i2"}]}
    return {"program": prog, "scripts": scripts, "input": inp, "shape": "%s.%s.%s%s/%s" % (pair[0], pair[1], pair[2], "." + field if field else "", consumer),
            "outcome": outcome, "pair": pair, "consumer": consumer, "field": field}


def valid_work_input(v):
    """Independent validator of the scripted plugin's WorkInput schema; returns None or a reason."""
    if not isinstance(v, dict):
        return "input is not a map: %r" % (v,)
    spec = {"tag": str, "n": int, "f": (int, float), "b": bool, "l": list, "o": dict, "a": object}
    for k, x in v.items():
        if k not in spec:
            return "unknown field %s" % k
        if k == "a":
            bad = find_nonprimitive(x)
            if bad:
                return "field a contains a non-primitive value: %s" % bad
            continue
        if isinstance(x, dict) and any(str(kk).startswith("!") for kk in x) and k != "n":
            return "field %s has a non-primitive value %r" % (k, x)
        x = ref.denum(x)
        if isinstance(x, bool) and spec[k] is not bool:
            return "field %s: bool where %s expected" % (k, spec[k])
        if not isinstance(x, spec[k]):
            return "field %s: %r is not %s" % (k, x, spec[k])
        if k == "l" and not all(isinstance(e, str) for e in x):
            return "field l: non-string element"
        if k == "o" and (not isinstance(x.get("s"), str) or set(x) - {"s", "i"}):
            return "field o does not match Nested"
    if "tag" not in v:
        return "missing tag"
    return None


def find_nonprimitive(x):
    if isinstance(x, dict):
        for k in x:
            if str(k) in ("!struct", "!other", "!bytes", "!error"):
                return "%r" % (x,)
        if "!map" in x:
            return None
        for e in x.values():
            b = find_nonprimitive(e)
            if b:
                return b
    elif isinstance(x, list):
        for e in x:
            b = find_nonprimitive(e)
            if b:
                return b
    return None


def run(check):
    check.rule = ("for every (provider, stage, output) pair an expression can reference in the plugin and foreach lifecycles and every declared field of it, "
                  "a consumer references the whole object and each field through (a) a workflow output with inferred schema, (b) an `any` step input, (c) a step "
                  "input field of the field's type; the outcome that produces the pair is driven (success/error/alt/crash/start failure/deploy failure/disabled/"
                  "stop-before-start/foreach success and failure); oracles: no 'bug:' error, returned output unserializes with OutputSchema(), the input logged at "
                  "the plugin boundary satisfies the step's input schema (independent validator), values equal the reference; results of every built-in function over "
                  "boundary arguments in a workflow output and in a typed step input; plus generated programs of all "
                  "shapes; non-trivial/distinct = (pair, field, consumer) visited with the pair actually produced")
    check.assumptions = ["'conforms' is what the declared schema's Unserialize accepts (the engine's own notion)", "plugins return data that conforms to their schema"]
    gs = []
    for pair, fields in PAIRS.items():
        for consumer in ("wf-output", "any-input"):
            gs.append(build(pair, consumer, None))
            for f in fields:
                gs.append(build(pair, consumer, f))
        for f, t in fields.items():
            gs.append(build(pair, "typed-input", f))
    # the workflow input itself: every input type incl. `pattern` (whose typed form differs from its serialized form)
    from ..model import InputSchema
    isch = InputSchema({"s": {"type": "string"}, "p": {"type": ("pattern",)}, "i": {"type": "integer"}, "fl": {"type": "float"}, "bo": {"type": "bool"},
                        "li": {"type": ("list", ("pattern",))}, "ma": {"type": ("map", "string", "integer")}, "en": {"type": ("enum", ["x", "y"])}})
    idoc = {"s": "str", "p": "^a+$", "i": 5, "fl": 1.5, "bo": True, "li": ["x|y", "[0-9]+"], "ma": {"k": 3}, "en": "y"}
    for consumer in ("wf-output", "any-input"):
        for f in [None] + list(isch.props):
            if consumer == "any-input" and f in ("p", "li"):
                continue  # Prepare does not accept a pattern-typed expression for an `any` field: nothing to observe
            node = In(f) if f else In()
            if consumer == "wf-output":
                prog = Program([gen.plugin_step("C", "lit")], {"observed": {"v": Expr(node)}}, isch)
            else:
                prog = Program([gen.plugin_step("C", "lit", extra_input={"a": Expr(node)})], {"observed": {"c": Expr(Ref("C", "outputs", "success"))}}, isch)
            gs.append({"program": prog, "scripts": gen.make_scripts(prog.steps, {}), "input": idoc, "shape": "input%s/%s" % ("." + f if f else "", consumer), "outcome": {},
                       "pair": ("workflow", "input", "document"), "consumer": consumer, "field": f})
    # results of built-in functions: the declared result type of the function becomes the type of the output / is checked
    # against the consuming field; the value the function really returns must be a value of that type
    from ..model import RawExpr
    fsch = InputSchema({"x": {"type": "float"}, "i": {"type": "integer"}, "s": {"type": "string"}, "b": {"type": "bool"}, "p": {"type": "integer"}})
    FN = [("floatToString", "floatToString($.input.x)", ["x"], "string"), ("floatToFormattedString-f", 'floatToFormattedString($.input.x, "f", $.input.p)', ["x", "p"], "string"),
          ("floatToFormattedString-e", 'floatToFormattedString($.input.x, "e", $.input.p)', ["x", "p"], "string"), ("floatToFormattedString-g", 'floatToFormattedString($.input.x, "g", $.input.p)', ["x", "p"], "string"),
          ("floatToFormattedString-b", 'floatToFormattedString($.input.x, "b", $.input.p)', ["x", "p"], "string"), ("floatToFormattedString-x", 'floatToFormattedString($.input.x, "x", $.input.p)', ["x", "p"], "string"),
          ("intToString", "intToString($.input.i)", ["i"], "string"), ("intToFloat", "intToFloat($.input.i)", ["i"], "float"), ("floatToInt", "floatToInt($.input.x)", ["x"], "int"),
          ("boolToString", "boolToString($.input.b)", ["b"], "string"), ("toUpper", "toUpper($.input.s)", ["s"], "string"), ("toLower", "toLower($.input.s)", ["s"], "string"),
          ("splitString", 'splitString($.input.s, ",")', ["s"], "list"), ("ceil", "ceil($.input.x)", ["x"], "float"), ("floor", "floor($.input.x)", ["x"], "float"),
          ("round", "round($.input.x)", ["x"], "float"), ("abs", "abs($.input.x)", ["x"], "float"), ("stringToFloat", "stringToFloat(floatToString($.input.x))", ["x"], "float"),
          ("stringToInt", "stringToInt(intToString($.input.i))", ["i"], "int")]
    XS = [0.0, 1.5, -2.25, 1e21, -1e21, 2.5e21, 9.999999999999999e20, 1.7976931348623157e308, 5e-324, 1e-7, 123456789.125, 9007199254740993.0, -0.0]
    IS = [0, -5, 7, 4611686018427387904, -9223372036854775807]
    SS = ["a,b", "", "12", "MiXed,,x", ","]
    fn_docs = []
    for k in range(max(len(XS), len(IS), len(SS))):
        fn_docs.append({"x": XS[k % len(XS)], "i": IS[k % len(IS)], "s": SS[k % len(SS)], "b": k % 2 == 0, "p": [-1, 0, 3, 17, 400][k % 5]})
    for (fname, text, deps, rtype) in FN:
        for di, doc in enumerate(fn_docs):
            for consumer in ("wf-output", "typed-input"):
                node = RawExpr(text, [In(d) for d in deps])
                if consumer == "wf-output":
                    prog = Program([gen.plugin_step("C", "lit")], {"observed": {"v": Expr(node)}}, fsch)
                else:
                    prog = Program([gen.plugin_step("C", "lit", extra_input={TYPED_FIELD[rtype]: Expr(node)})], {"observed": {"c": Expr(Ref("C", "outputs", "success"))}}, fsch)
                gs.append({"program": prog, "scripts": gen.make_scripts(prog.steps, {}), "input": doc, "shape": "function-result:%s#%d/%s" % (fname, di, consumer), "outcome": {},
                           "pair": None, "consumer": consumer, "field": None, "fn": fname})
    n_extra = check.pick(150, 2500)
    extra = []
    for i in range(n_extra):
        g = runfam.gen_terminating(check.seed, "c08-%d" % i, p_fail=0.3, outcomes=["error", "alt", "crash", "deployfail"])
        if g is not None:
            extra.append(g)
    # the plugin answers the run-time deployment with a later release (same input, the success output has one more field):
    # what enters the data model must still be what the workflow was typed with when it was prepared
    for j, (shape, fn) in enumerate((("chain2", lambda r: gen.shape_chain(r, 2)), ("chain3", lambda r: gen.shape_chain(r, 3)), ("diamond", gen.shape_diamond), ("fan_in3", lambda r: gen.shape_fan_in(r, 3)))):
        rng = random.Random(derive_seed(check.seed, "c08-grown", j))
        steps0, _o = fn(rng)
        for victim in [s_.name for s_ in steps0 if s_.kind == "plugin"]:
            rng = random.Random(derive_seed(check.seed, "c08-grown", j))
            steps, outs = fn(rng)
            outs["whole_" + victim] = {"v": Expr(Ref(victim, "outputs", "success"))}
            outs["crashed_" + victim] = {"why": Expr(Ref(victim, "crashed", "error", "output"))}
            scripts = gen.make_scripts(steps, {})
            scripts[victim]["deploys"] = [{}, {"schema": "grown"}]
            extra.append({"program": Program(steps, outs, gen.BASE_INPUT), "scripts": scripts, "input": gen.base_input(rng), "shape": "plugin-release-changed/%s@%s" % (shape, victim), "outcome": {},
                          "pair": None, "drift": True})
    # a loop cancelled while its items run, its results used by a workflow output
    from .. import cancelfam
    for j in range(check.pick(10, 60)):
        rng = random.Random(derive_seed(check.seed, "c08-cancel-loop", j))
        prog, scripts, name = (cancelfam.prog_foreach_hang if j % 2 else cancelfam.prog_foreach_partial)(rng)
        extra.append({"program": prog, "scripts": scripts, "input": cancelfam.base_input(rng), "shape": "cancelled-loop/" + name, "outcome": {}, "pair": None, "drift": True,
                      "triggers": [{"kind": "exec-start", "src": "sub_w0", "nth": rng.choice([1, 2]), "action": "cancel:0"}]})
    # texts the engine composes itself (disabled message, crash report, deployment failure) for steps with very long ids: they
    # must be values of the type their stage declares
    from ..model import Not, Step
    for j, ln in enumerate([8, 200, 236, 240, 250, 255]):
        for kind in ("plugin-disabled", "loop-disabled", "crash", "deployfail"):
            name = ("s" + "x" * 300)[:ln]
            if kind == "loop-disabled":
                st = Step(name, "foreach", sub=gen.sub_program("sub.yaml", 1), items=[{"tag": "i0"}], enabled=Expr(Not(In("flag"))))
            else:
                st = gen.plugin_step(name, Expr(In("tag")), src="longid")
                if kind == "plugin-disabled":
                    st.fields["enabled"] = Expr(Not(In("flag")))
            ref_ = {"plugin-disabled": Ref(name, "disabled", "output", "message"), "loop-disabled": Ref(name, "disabled", "output", "message"),
                    "crash": Ref(name, "crashed", "error", "output"), "deployfail": Ref(name, "deploy_failed", "error", "error")}[kind]
            prog = Program([st], {"report": {"m": Expr(ref_)}}, gen.BASE_INPUT)
            scripts = gen.make_scripts([st], {name: kind} if kind in ("crash", "deployfail") else {})
            extra.append({"program": prog, "scripts": scripts, "input": {"tag": "T1", "flag": True}, "shape": "engine-text/%s/id-length-%d" % (kind, ln), "outcome": {}, "pair": None, "drift": True, "expect_out": "report"})
    # a plugin whose success output has a property of the type `pattern`: what enters the data model, reaches other steps and the
    # workflow output is its text
    for j, where in enumerate(["output", "output-whole", "step-input", "loop-item"]):
        a = gen.plugin_step("a", Expr(In("tag")), schema="patterned")
        steps = [a]
        if where == "output":
            outs = {"report": {"p": Expr(Ref("a", "outputs", "success", "pat")), "t": gen.tagref("a")}}
        elif where == "output-whole":
            outs = {"report": {"all": Expr(Ref("a", "outputs", "success"))}}
        elif where == "step-input":
            steps.append(gen.plugin_step("b", Expr(Ref("a", "outputs", "success", "pat")), extra_input={"a": Expr(Ref("a", "outputs", "success"))}))
            outs = {"report": {"b": gen.tagref("b")}}
        else:
            steps.append(Step("loop", "foreach", sub=gen.sub_program("sub.yaml", 1), items=[{"tag": Expr(Ref("a", "outputs", "success", "pat"))}]))
            outs = {"report": {"d": Expr(Ref("loop", "outputs", "success", "data"))}}
        scripts = gen.make_scripts(steps, {})
        extra.append({"program": Program(steps, outs, gen.BASE_INPUT), "scripts": scripts, "input": {"tag": "T1"}, "shape": "pattern-typed-plugin-output/%s" % where, "outcome": {}, "pair": None, "drift": True,
                      "expect_out": "report", "expect_text": "^a+[0-9]{2}$"})
    # loops over an empty list whose (empty) result list is referenced by an output, a step and a second loop
    for j, where in enumerate(["output", "step-input", "second-loop", "output-whole"]):
        loop = Step("loop", "foreach", sub=gen.sub_program("sub.yaml", 1), items=Expr(In("items")))
        steps = [loop]
        if where == "output":
            outs = {"report": {"d": Expr(Ref("loop", "outputs", "success", "data"))}}
        elif where == "output-whole":
            outs = {"report": {"all": Expr(Ref("loop", "outputs", "success"))}}
        elif where == "step-input":
            steps.append(gen.plugin_step("b", Expr(In("tag")), extra_input={"a": Expr(Ref("loop", "outputs", "success", "data"))}))
            outs = {"report": {"b": Expr(Ref("b", "outputs", "success"))}}
        else:
            steps.append(Step("again", "foreach", sub=Program([gen.plugin_step("w0", "lit", src="sub2_w0", extra_input={"a": Expr(In())})], {"success": {"x": Expr(Ref("w0", "outputs", "success", "tag"))}},
                                                            InputSchema({"t": {"type": "string"}}, root="Got"), name="sub2.yaml"), items=Expr(Ref("loop", "outputs", "success", "data"))))
            outs = {"report": {"d2": Expr(Ref("again", "outputs", "success", "data"))}}
        extra.append({"program": Program(steps, outs, gen.BASE_INPUT), "scripts": gen.make_scripts(steps, {}), "input": {"tag": "T1", "items": []}, "shape": "empty-loop-result/%s" % where, "outcome": {}, "pair": None, "drift": True,
                      "expect_out_if_accepted": "report"})
    # constants for `enabled` in every spelling the declared bool type accepts, on loop and plugin steps: what preparation and the
    # run loop's check of the stage input accept, the provider must understand
    for kind in ("loop", "plugin"):
        for v, truth in (("yes", True), ("no", False), ("on", True), ("off", False), ("y", True), ("n", False), ("tRuE", True), ("FALSE", False), ("enable", True), ("disabled", False), ("1", True), ("0", False), (True, True)):
            if kind == "loop":
                st = Step("x", "foreach", sub=gen.sub_program("sub.yaml", 1), items=[{"tag": "i0"}])
                outs = {"ran": {"d": Expr(Ref("x", "outputs", "success", "data"))}, "skipped": {"m": Expr(Ref("x", "disabled", "output", "message"))}}
            else:
                st = gen.plugin_step("x", Expr(In("tag")))
                outs = {"ran": {"t": gen.tagref("x")}, "skipped": {"m": Expr(Ref("x", "disabled", "output", "message"))}}
            st.fields["enabled"] = v
            extra.append({"program": Program([st], outs, gen.BASE_INPUT), "scripts": gen.make_scripts([st], {}), "input": {"tag": "T1"}, "shape": "constant-enabled/%s/%r" % (kind, v), "outcome": {}, "pair": None,
                          "drift": True, "expect_out_if_accepted": "ran" if truth else "skipped"})
    # ill-typed single-point corruptions of valid programs: whatever preparation decides about them, a run of an accepted one
    # must not end in an internal consistency error or hand over / return ill-typed data
    from . import c10
    ncor = 0
    for j, g0 in enumerate(c10.programs(check, check.pick(20, 120))):
        rng = random.Random(derive_seed(check.seed, "c08-cor", j))
        for kind, p in c10.corruptions(g0, rng):
            if not (kind.startswith("illtyped-") or kind.startswith("stop-if-without-cancel-handler")):
                continue
            scripts = gen.make_scripts(p.steps, {})
            for src, sc in getattr(p, "scripts_needed", {}).items():
                scripts.setdefault(src, {}).update(sc)
            inp = gen.base_input(rng, 2)
            extra.append({"program": p, "scripts": scripts, "input": inp, "shape": "corrupted:%s" % kind, "outcome": {}, "pair": None, "corruption": kind})
            ncor += 1
    check.extra["illtyped_corruptions_run"] = ncor
    # one Executor object used for several workflows in which the same expression text has different types: each workflow is
    # typed with its own declarations (the second is ill-typed and must be refused - or, if accepted, must not end in an
    # internal consistency error)
    from ..model import InputSchema
    exec_seq = []
    for j, (t1, t2, field) in enumerate([("integer", "string", "n"), ("integer", ("object", "D", {"x": {"type": "integer"}}), "n"), ("string", "integer", "tag"), ("bool", "string", "b"), (("list", "string"), "string", "l"),
                                         ("string", ("list", "string"), "tag")]):
        def prog_for(t):
            a = gen.plugin_step("a", Expr(In("tag")) if field != "tag" else Expr(In("d")))
            if field != "tag":
                a.fields["input"][field] = Expr(In("d"))
            return Program([a], {"success": {"a": gen.tagref("a")}}, InputSchema({"tag": {"type": "string"}, "d": {"type": t}}))
        val = {"integer": 5, "string": "text", "bool": True}
        def doc(t):
            return {"tag": "T", "d": val[t] if isinstance(t, str) else ({"x": 1} if t[0] == "object" else ["a", "b"])}
        seq = [{"files": prog_for(t1).files(), "input": doc(t1)}, {"files": prog_for(t2).files(), "input": doc(t2)}, {"files": prog_for(t1).files(), "input": doc(t1)}]
        exec_seq.append(({"id": "c08-x%03d" % j, "mode": "seq", "files": {}, "scripts": {}, "runs": [], "extra": {"sequence": seq, "share_executor": True}, "no_events": True}, "%s then %s into `%s`" % (t1, t2, field)))
    items = []
    for i, g in enumerate(gs + extra):
        if g.get("corruption") or g.get("drift"):
            case = {"id": "c08-%05d" % i, "files": g["program"].files(), "scripts": g["scripts"], "runs": [{"input": g["input"]}]}
            if g.get("triggers"):
                case["triggers"] = g["triggers"]
            items.append((case, None, g))
            continue
        case, sem = runfam.build_case("c08-%05d" % i, g)
        items.append((case, sem, g))
    table = {}
    with harness.Runner() as rn:
        out = rn.run_cases([c for c, _s, _g in items])
        xout = rn.run_cases([c for c, _w in exec_seq])
    for case, what in exec_seq:
        o = xout.get(case["id"], {})
        check.count()
        runs = (o.get("result") or {}).get("runs") or []
        if "death" in o or len(runs) != 3:
            check.inconclusive_case(case["id"], str(o.get("death", {}).get("key") or "sequence incomplete"))
            continue
        if runs[0].get("out_id") != "success" or runs[2].get("out_id") != "success":
            check.report("executor@well-typed-refused", "one Executor, %s: the well-typed workflow did not run (%s / %s)" % (what, (runs[0].get("err") or "")[:150], (runs[2].get("err") or "")[:150]), {"case": case})
        r = runs[1]
        if r.get("err_type") not in ("parse", "prepare"):
            if "bug:" in (r.get("err") or "").lower():
                check.report("bug@accepted-illtyped:second-use-of-executor", "one Executor, %s: the ill-typed second workflow was accepted and its run ended in an internal consistency error: %s" % (what, r["err"][:300]), {"case": case})
            elif r.get("out_id"):
                check.report("accepted@illtyped:second-use-of-executor", "one Executor, %s: the ill-typed second workflow was accepted and ran to %r" % (what, r.get("out_id")), {"case": case})
        check.nontrivial("executor-seq|" + what)
    by_id = {c["id"]: (c, s, g) for c, s, g in items}
    for cid in sorted(out):
        o = out[cid]
        case, sem, g = by_id[cid]
        check.count()
        cell = None
        if g.get("pair"):
            cell = "%s.%s.%s%s|%s" % (g["pair"][0], g["pair"][1], g["pair"][2], "." + g["field"] if g["field"] else "", g["consumer"])
        if "death" in o:
            d = o["death"]
            if cell and d["key"] == "panic@pluginsdk/schema.(*RefSchema).ApplyNamespace":
                # Prepare itself panics when an output is inferred from a ref-typed field: recorded under C11
                table[cell] = "blocked-by-known-finding:C11 " + d["key"]
                continue
            if cell:
                table[cell] = "died:" + d["key"]
            check.inconclusive_case(cid, "%s %s (%s)" % (d["kind"], d["key"], g["shape"]))
            continue
        res = o["result"]
        if g.get("corruption") and (res.get("parse_err") or res.get("prepare_err")):
            st_ = check.extra.setdefault("illtyped_corruptions", {"rejected": 0, "accepted": 0})
            st_["rejected"] += 1
            continue
        if res.get("parse_err") or res.get("prepare_err"):
            err = res.get("parse_err") or res.get("prepare_err")
            if cell and "failed to create scope for inferred type" in err:
                # an output inferred from a ref-typed plugin field cannot be represented; Prepare refuses it (it used to panic: fixed C11 finding)
                table[cell] = "blocked-by-known-finding: " + err[:120]
            elif cell:
                table[cell] = "rejected: " + err[:150]
            continue
        if g.get("drift"):
            run = (res.get("runs") or [{}])[0]
            err = run.get("err") or ""
            check.extra["drift_or_cancel_runs"] = check.extra.get("drift_or_cancel_runs", 0) + 1
            if "bug:" in err.lower():
                check.report("bug@" + mon.bug_class(err) + ":" + g["shape"].split("/")[0], "case %s (%s): internal consistency error: %s" % (cid, g["shape"], err[:300]), {"case": case, "result": runfam.strip(res)})
            elif run.get("schema_check"):
                check.report("schema@workflow-output:" + g["shape"].split("/")[0], "case %s (%s): returned output %r does not match OutputSchema(): %s" % (cid, g["shape"], run.get("out_id"), run["schema_check"][:300]),
                             {"case": case, "result": runfam.strip(res)})
            if g.get("expect_out_if_accepted") and run.get("out_id") != g["expect_out_if_accepted"] and "bug:" not in err.lower():
                check.report("result@" + g["shape"].split("/")[0], "case %s (%s): accepted, expected output %r, got %r / %s" % (cid, g["shape"], g["expect_out_if_accepted"], run.get("out_id"), err[:300]), {"case": case, "result": runfam.strip(res)})
            if g.get("expect_text") and run.get("out_id") == g.get("expect_out") and g["expect_text"] not in json.dumps(ref.denum(run.get("data"))):
                check.report("value@" + g["shape"].split("/")[0], "case %s (%s): the returned data does not carry the text %r: %r" % (cid, g["shape"], g["expect_text"], run.get("data")), {"case": case})
            if g.get("expect_out") and run.get("out_id") != g["expect_out"] and "bug:" not in err.lower():
                check.report("result@" + g["shape"].split("/")[0], "case %s (%s): expected output %r, got %r / %s" % (cid, g["shape"], g["expect_out"], run.get("out_id"), err[:300]), {"case": case, "result": runfam.strip(res)})
            check.nontrivial(g["shape"])
            continue
        if g.get("corruption"):
            st_ = check.extra.setdefault("illtyped_corruptions", {"rejected": 0, "accepted": 0})
            st_["accepted"] += 1
            run = (res.get("runs") or [{}])[0]
            err = run.get("err") or ""
            bad_in = [(e["src"], (e.get("data") or {}).get("input_error")) for e in res.get("events") or [] if e["kind"] == "exec-start" and (e.get("data") or {}).get("input_error")]
            if bad_in:
                check.report("schema@accepted-illtyped-plugin-input:" + g["corruption"], "case %s: ill-typed program (%s) was accepted and plugin %s was handed an input that violates its schema: %s" % (
                    cid, g["corruption"], bad_in[0][0], str(bad_in[0][1])[:200]), {"case": case})
            if "bug:" in err.lower():
                check.report("bug@accepted-illtyped:" + g["corruption"], "case %s: ill-typed program (%s) was accepted and its run ended in an internal consistency error: %s" % (cid, g["corruption"], err[:300]),
                             {"case": case})
            elif run.get("schema_check"):
                check.report("schema@accepted-illtyped:" + g["corruption"], "case %s: ill-typed program (%s) was accepted and returned data that does not match OutputSchema(): %s" % (cid, g["corruption"], run["schema_check"][:300]),
                             {"case": case})
            check.nontrivial("corrupted|" + g["corruption"])
            continue
        vs = [v for v in mon.monitor_run(case, res, sem) if v.prop in ("C08", "C03", "C02")]
        for e in res.get("events") or []:
            if e["kind"] == "exec-start":
                why = (e.get("data") or {}).get("input_error")
                if not why:
                    why = find_nonprimitive((e.get("data") or {}).get("raw"))
                if why:
                    vs.append(mon.V("C08", "schema@plugin-input", "plugin %s received an input that violates its schema: %s" % (e["src"], why)))
        run = res["runs"][0]
        if g.get("fn"):
            fs = check.extra.setdefault("function_results", {"produced": 0, "evaluation_errors": 0, "functions": {}})
            fs["produced" if run.get("out_id") else "evaluation_errors"] += 1
            fs["functions"][g["fn"]] = fs["functions"].get(g["fn"], 0) + 1
            if run.get("out_id"):
                check.nontrivial("fn:%s/%s" % (g["fn"], g["consumer"]))
        if cell:
            produced = run.get("out_id") == "observed"
            table[cell] = "ok" if (produced and not vs) else ("violation" if vs else "not-produced:%s" % (run.get("err") or run.get("out_id"))[:80])
            if produced:
                check.nontrivial(cell)
        for v in vs:
            key = v.key if v.prop == "C08" else "value@" + v.key
            if cell:
                key = "%s:%s" % (key, cell.split("|")[0])
            check.report(key, "case %s (%s): %s" % (cid, g["shape"], v.what), {"case": case, "violation": v.to_json(), "result": runfam.strip(res)})
        if cell and len(check.samples) < 5 and g["consumer"] != "wf-output" and cell.count(".") > 2:
            starts = [e for e in res.get("events") or [] if e["kind"] == "exec-start" and e["src"] == "C"]
            if starts:
                check.sample({"cell": cell, "plugin_input_at_boundary": starts[0]["data"].get("raw"), "returned": run.get("data")})
    bad = {k: v for k, v in table.items() if v not in ("ok", "violation") and not v.startswith("blocked-by-known-finding")}
    check.extra["coverage_table_blocked"] = {k: v for k, v in table.items() if v.startswith("blocked-by-known-finding")}
    check.extra["coverage_table_cells"] = len(table)
    check.extra["coverage_table_ok"] = len([v for v in table.values() if v == "ok"])
    check.extra["coverage_table_not_ok"] = bad
    check.extra["unreachable_pairs"] = {"%s.%s.%s" % k: v for k, v in UNREACHABLE.items()}
    if bad:
        check.fail_broken("coverage table incomplete: %d cells not visited (%s)" % (len(bad), list(bad.items())[:4]))
