"""C06 - cancelling a run stops it in bounded time and reaches every running plugin (fault enumeration)."""
import random

from .. import cancelfam, gen, harness, mon, ref, runfam
from ..core import Check, derive_seed
from ..model import Ref

GRACE_MS = 5000
DEFAULT_CLOSURE_MS = 5000
SLACK_MS = 2500


def has_handler(prog, scripts, src):
    sc = scripts.get(src) or {}
    return (sc.get("schema") or "work") != "nocancel"


def zero_timeout(prog, src):
    for s in prog.all_plugin_steps():
        if s.src == src and s.field("closure_wait_timeout") == 0:
            return True
    return False


def closure_sum(prog):
    tot = 0
    for s in prog.all_plugin_steps():
        v = s.field("closure_wait_timeout")
        tot += v if isinstance(v, int) else DEFAULT_CLOSURE_MS
    return tot


def monitor_cancel(case, res, sem, g):
    vs = []
    ev = res.get("events") or []
    run = (res.get("runs") or [{}])[0]
    cancel = [e for e in ev if e["kind"] == "cancel-call"]
    if not cancel:
        return vs, False
    t_cancel_seq, t_cancel = cancel[0]["seq"], cancel[0]["t"]
    ret = [e for e in ev if e["kind"] == "execute-return"]
    if ret and ret[0]["seq"] < t_cancel_seq:
        return vs, False  # the run had already returned when the trigger fired
    # (b) every execution still open when its connection was closed: signal (or plain close)
    close_seq = {e["conn"]: e["seq"] for e in ev if e["kind"] == "conn-close"}
    ends = {}
    for e in ev:
        if e["kind"] == "exec-end":
            ends.setdefault(e["conn"], e)
    signals = {}
    for e in ev:
        if e["kind"] == "signal" and e.get("data") == "cancel":
            signals.setdefault(e["conn"], e["seq"])
    for e in ev:
        if e["kind"] != "exec-start":
            continue  # executions that begin after the cancellation are held to the same rule: they are running plugins of a cancelled run
        c = e["conn"]
        end = ends.get(c)
        normal_end = end is not None and not (end.get("data") or {}).get("aborted")
        if c not in close_seq:
            vs.append(mon.V("C06", "open@conn", "plugin %s (conn %d) was executing at cancellation and its connection was never closed" % (e["src"], c)))
            continue
        if normal_end and end["seq"] < close_seq[c] and (c not in signals or end["seq"] < signals[c]):
            # finished by itself before any signal: nothing to check... unless it ended only because it was signalled
            continue
        if has_handler(sem.p, case["scripts"], e["src"]) and not zero_timeout(sem.p, e["src"]):
            # (with a closure timeout of 0 the step is closed by force at once: the signal is sent, but nothing says it arrives first)
            if c not in signals or signals[c] > close_seq[c]:
                vs.append(mon.V("C06", "signal@missing", "plugin %s (conn %d) was executing when the run was cancelled, declares the cancel handler, but was closed (seq %d) without a cancel signal" % (e["src"], c, close_seq[c])))
    # (c) nothing left executing
    if res.get("open_execs"):
        vs.append(mon.V("C06", "open@exec", "%d plugin execution(s) still open at execute-return" % res["open_execs"]))
    if res.get("open_conns"):
        vs.append(mon.V("C06", "open@conn", "%d plugin connection(s) still open at execute-return: %s" % (res["open_conns"], mon.open_conn_srcs(res))))
    # (d) an output must be genuinely produced
    out_id, err = run.get("out_id") or "", run.get("err") or ""
    if bool(out_id) == bool(err):
        vs.append(mon.V("C06", "shape@both-or-neither", "Execute returned id=%r err=%r" % (out_id, err)))
    if out_id and out_id in sem.p.outputs:
        produced = {}
        for e in ev:
            if e["kind"] == "exec-end" and (e.get("data") or {}).get("id"):
                produced.setdefault((e["src"], e["data"]["id"]), e["seq"])
        deploy_attempts = set(e["src"] for e in ev if e["kind"] == "deploy-call" and ((e.get("data") or {}).get("nth") or 0) >= 2)
        for r in mon.required_refs(sem.p.outputs[out_id]):
            if r.stage == "deploy_failed":
                try:
                    s = sem.p.step(r.step)
                except KeyError:
                    continue
                if s.kind == "plugin" and s.src not in deploy_attempts:
                    vs.append(mon.V("C06", "result@unproduced-dependency", "returned output %r depends on %r, but no deployment of that step was ever attempted" % (out_id, r)))
                continue
            if r.stage != "outputs" or r.output is None:
                continue
            try:
                s = sem.p.step(r.step)
            except KeyError:
                continue
            if s.kind != "plugin":
                continue
            if (s.src, r.output) not in produced:
                vs.append(mon.V("C06", "result@unproduced-dependency", "returned output %r depends on %r, which no plugin produced" % (out_id, r)))
    # (e) stated time bound (wall clock; re-checked in isolation by the caller)
    slow = False
    if ret:
        elapsed = ret[0]["t"] - t_cancel
        bound = GRACE_MS + closure_sum(sem.p) + SLACK_MS
        if elapsed > bound:
            slow = True
            vs.append(mon.V("C06", "time@bound", "run returned %.0f ms after cancellation; bound %d ms" % (elapsed, bound)))
    return vs, slow


def run(check):
    check.rule = ("fault enumeration over logical cancellation instants: the caller's context is cancelled when the k-th event is logged (every k of a "
                  "recorded run; 14 sampled per program in quick), at every certain plugin-boundary event (deployment, run-time schema read, execution start/end) of never-ending programs (obeying / ignoring / "
                  "handler-less plugins, blocked deployment, foreach in progress, loops waiting to be enabled while the run loop is slow) and (thorough) at schedule points of the run loop and providers; "
                  "oracles: Go runtime deadlock report; executions open at cancellation - or begun after it - get the cancel signal before their connection is closed (or are "
                  "closed if they have no handler); nothing open at return; returned outputs have produced dependencies; return within 5 s + sum of closure "
                  "timeouts + slack (re-run alone before it counts); non-trivial = the cancellation fired before the run returned; distinct = (program, instant)")
    check.assumptions = ["time bound uses the monotonic clock with 2.5 s slack and is confirmed by an isolated re-run", "the scripted plugin blocks on channels only"]
    stats = {"fired_before_return": 0, "signals_seen": 0, "forced_closes": 0, "outputs_after_cancel": 0, "errors_after_cancel": 0, "max_cancel_to_return_ms": 0.0}
    with harness.Runner() as rn:
        if not rn.hang_oracle_works():
            check.fail_broken("the hang oracle (Go runtime deadlock report) does not fire in this build")
        items = cancelfam.cancel_cases(check, rn, "c06", check.pick(8, 40), check.pick(3 * len(cancelfam.NEVER_ENDING), 6 * len(cancelfam.NEVER_ENDING)), sched_points=check.pick(3, 25))
        # loops that wait to be enabled by a step's result, cancelled while the run loop is busy with that very result (each
        # placement of a step output into the data model takes a moment): the loops are closed while the run loop is about to
        # hand them their `enabled` value
        for j in range(check.pick(40, 200)):
            rng = random.Random(derive_seed(check.seed, "c06-enabling", j))
            prog, scripts, name = cancelfam.prog_loops_waiting_to_be_enabled(rng)
            kind, nth = rng.choice([("exec-end", 1), ("exec-end", 1), ("conn-close", 2), ("exec-start", 1)])
            g = {"program": prog, "scripts": scripts, "input": cancelfam.base_input(rng), "shape": "%s/cancel@%s:q#%d+slow-run-loop" % (name, kind, nth), "cancel": (kind, "q", nth)}
            ms = rng.choice([20, 40])
            sites = [{"point": "wf:loopState.onStageComplete:store#1", "hit": hh, "ms": ms} for hh in range(1, 25)]
            c, s_ = runfam.build_case("c06-e%04d" % j, g, triggers=[{"kind": kind, "src": "q", "nth": nth, "action": "cancel:0"}], plan={"sites": sites, "record": True}, plan_scope="execute")
            items.append((c, s_, g))
        by_id = {c["id"]: (c, s, g) for c, s, g in items}
        out = rn.run_cases([c for c, _s, _g in items], per_case_timeout=120)
        # (a provider-level family - stop condition a few milliseconds after the starting input, then a close - was removed: in
        # fresh sandboxes it twice showed an executing plugin that never got a cancel signal, which could not be reproduced in
        # 6 000 local repetitions and could therefore neither be shown to be a defect of the engine nor be excluded as an artefact
        # of the direct drive; see DESIGN 15)
        slow_cases = []
        for cid in sorted(out):
            o = out[cid]
            case, sem, g = by_id[cid]
            check.count()
            if "death" in o:
                d = o["death"]
                prop, key = runfam.death_property(d, case)
                if d["kind"] == "deadlock":
                    check.report("hang@" + d["key"][len("deadlock@"):], "run hung after cancellation in case %s (%s)" % (cid, g["shape"]),
                                 {"case": case, "death": {k: d[k] for k in ("kind", "key")}, "detail": d.get("detail", "")[:4000]})
                elif d["kind"] in ("timeout", "exit", "harness"):
                    check.inconclusive_case(cid, d["kind"])
                elif d["kind"] in ("panic", "fatal"):
                    # the cancelled run never returned: the process died (also reported by C07 for the same workload without cancellation)
                    check.report("crash-after-cancel@" + d["key"], "process died after the run was cancelled in case %s (%s): %s" % (cid, g["shape"], d.get("message", "")[:200]),
                                 {"case": case, "death": {k: d[k] for k in ("kind", "key")}, "detail": d.get("detail", "")[:4000]})
                else:
                    check.inconclusive_case(cid, "died with %s (%s): belongs to %s" % (d["kind"], key, prop))
                continue
            res = o["result"]
            if res.get("prepare_err") or res.get("parse_err"):
                check.extra["rejected"] = check.extra.get("rejected", 0) + 1
                continue
            vs, slow = monitor_cancel(case, res, sem, g)
            ev = res.get("events") or []
            cancel = [e for e in ev if e["kind"] == "cancel-call"]
            ret = [e for e in ev if e["kind"] == "execute-return"]
            if cancel and ret and cancel[0]["seq"] < ret[0]["seq"]:
                stats["fired_before_return"] += 1
                check.nontrivial(g["shape"])
                stats["max_cancel_to_return_ms"] = max(stats["max_cancel_to_return_ms"], ret[0]["t"] - cancel[0]["t"])
                run = res["runs"][0]
                stats["outputs_after_cancel" if run.get("out_id") else "errors_after_cancel"] += 1
            stats["signals_seen"] += len([e for e in ev if e["kind"] == "signal"])
            stats["forced_closes"] += len([e for e in ev if e["kind"] == "exec-end" and (e.get("data") or {}).get("aborted")])
            if slow:
                slow_cases.append((case, sem, g))
                vs = [v for v in vs if v.key != "time@bound"]
            for v in vs:
                check.report(v.key, "case %s (%s): %s" % (cid, g["shape"], v.what), {"case": case, "violation": v.to_json(), "result": runfam.strip(res)})
            if cancel and len(check.samples) < 4 and any(e["kind"] == "signal" for e in ev):
                check.sample({"case": cid, "shape": g["shape"], "events_after_cancel": [(e["seq"], e["kind"], e["src"]) for e in ev if e["seq"] >= cancel[0]["seq"]][:14],
                              "result": {"out_id": res["runs"][0].get("out_id"), "err": (res["runs"][0].get("err") or "")[:80]}})
        # isolated re-run of slow cases
        for case, sem, g in slow_cases[:10]:
            o = rn.run_cases([case], per_case_timeout=120, jobs=1).get(case["id"], {})
            if "result" in o:
                vs, slow = monitor_cancel(case, o["result"], sem, g)
                if slow:
                    v = [x for x in vs if x.key == "time@bound"][0]
                    check.report(v.key, "case %s (%s), reproduced alone: %s" % (case["id"], g["shape"], v.what), {"case": case, "result": runfam.strip(o["result"])})
                else:
                    check.inconclusive_case(case["id"], "time bound exceeded once under load, not reproduced alone")
    check.extra.update(stats)
    if stats["fired_before_return"] < 20 or stats["signals_seen"] == 0:
        check.fail_broken("too few effective cancellations (%d) or no cancel signal ever observed" % stats["fired_before_return"])
