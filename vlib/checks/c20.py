"""C20 - the engine API classifies results and resolves files consistently."""
import json
import os
import random
import subprocess
import tempfile

from .. import build, gen, harness, mon, ref, runfam
from ..core import Check, derive_seed
from ..model import Expr, In, Ref, Program, Step, InputSchema

ITEM = InputSchema({"tag": {"type": "string"}}, root="Item")


def leaf(name, src, out_ids=("success",), fail_tag=None):
    steps = [gen.plugin_step("w", Expr(In("tag")), src=src)]
    outs = {}
    for oid in out_ids:
        if oid == "success":
            outs["success"] = {"t": gen.tagref("w")}
        else:
            outs[oid] = {"why": Expr(Ref("w", "outputs", "error", "reason"))}
    return Program(steps, outs, ITEM, name=name)


def spelled(rng, name):
    """Another valid way of writing the same path relative to the context directory."""
    k = rng.random()
    if k < 0.65:
        return None
    if k < 0.8:
        return "./" + name
    if k < 0.9:
        return "zz/../" + name
    d, _, base = name.rpartition("/")
    return (d + "/./" + base) if d else "./" + "./" + name


def loop_over(name, sub, nitems=2, par=1, rng=None):
    fe = Step("loop", "foreach", sub=sub, items=[{"tag": Expr(In("tag"))}] + [{"tag": "k%d" % i} for i in range(nitems - 1)], parallelism=par)
    if rng is not None:
        fe.subfile = spelled(rng, sub.name)
    return Program([fe], {"success": {"d": Expr(Ref("loop", "outputs", "success", "data"))}}, ITEM, name=name)


def tree(rng, i):
    """A workflow tree: main + sub-workflows (nesting <= 3, shared subs, sub-directories), and the outcome scripts."""
    depth = rng.choice([0, 1, 2, 3])
    subdir = rng.choice(["", "", "subs/", "a/b/"])
    out_kind = rng.choice(["success", "error-inferred", "explicit-error-flag", "explicit-nonerror-named-error", "custom-id"])
    scripts = {}
    a = gen.plugin_step("a", Expr(In("tag")))
    steps = [a]
    outs = {"success": {"a": gen.tagref("a")}}
    if depth >= 1:
        l = leaf(subdir + "leaf.yaml", "leaf_w")
        sub = l
        for d in range(depth - 1):
            sub = loop_over("%slevel%d.yaml" % (subdir, d), sub, nitems=rng.choice([1, 2]), rng=rng)
        fe = Step("loop", "foreach", sub=sub, items=[{"tag": gen.tagref("a")}, {"tag": Expr(In("tag"))}], parallelism=rng.choice([1, 2]))
        fe.subfile = spelled(rng, sub.name)
        steps.append(fe)
        outs["success"]["d"] = Expr(Ref("loop", "outputs", "success", "data"))
        if rng.random() < 0.5:
            # a sub-workflow file shared by a second loop step: either the same file as the first loop's, or the leaf file,
            # which is then referenced from two *different* files (root and an intermediate level)
            shared = sub if rng.random() < 0.5 else l
            fe2 = Step("loop2", "foreach", sub=shared, items=[{"tag": "second"}])
            fe2.subfile = spelled(rng, shared.name)
            steps.append(fe2)
            outs["success"]["d2"] = Expr(Ref("loop2", "outputs", "success", "data"))
    output_schema = None
    outcome = {}
    expect_error_flag = False
    if out_kind == "error-inferred":
        outs["error"] = {"why": Expr(Ref("a", "outputs", "error", "reason"))}
        outcome["a"] = "error"
        expect_error_flag = True
    elif out_kind == "custom-id":
        outs["weird-id_1"] = {"why": Expr(Ref("a", "outputs", "error", "reason"))}
        outcome["a"] = "error"
    elif out_kind in ("explicit-error-flag", "explicit-nonerror-named-error"):
        oid = "failed" if out_kind == "explicit-error-flag" else "error"
        outs[oid] = {"why": Expr(Ref("a", "outputs", "error", "reason"))}
        outcome["a"] = "error"
        expect_error_flag = out_kind == "explicit-error-flag"

        def sch(props, err):
            return {"schema": {"root": "O", "objects": {"O": {"id": "O", "properties": props}}}, "error": err}
        sprops = {"a": {"type": {"type_id": "string"}}}
        if depth >= 1:
            sprops["d"] = {"type": {"type_id": "any"}}
            if any(s.name == "loop2" for s in steps):
                sprops["d2"] = {"type": {"type_id": "any"}}
        output_schema = {"success": sch(sprops, False), oid: sch({"why": {"type": {"type_id": "string"}}}, expect_error_flag)}
    prog = Program(steps, outs, gen.BASE_INPUT, output_schema=output_schema)
    scripts = gen.make_scripts(steps, outcome)
    inp = {"tag": "T%d" % i}
    return {"program": prog, "scripts": scripts, "input": inp, "shape": "depth=%d dir=%r out=%s" % (depth, subdir, out_kind), "outcome": outcome,
            "expect_error_flag": expect_error_flag, "out_kind": out_kind}


def run(check):
    n = check.pick(60, 500)
    check.rule = ("generated workflow trees written to disk (sub-workflow nesting 0-3, sub-workflows shared by two loop steps, sub-directories; output ids success / error "
                  "(inferred) / explicit outputSchema with and without the error flag / custom ids); each tree is run (a) through engine.New().Parse + Run with a file "
                  "cache built from an absolute and from a relative context directory, from different working directories (also changed between building the cache and parsing, with a decoy tree at the same relative path), from disk and from memory, several times, and (b) "
                  "directly through Prepare + Execute on the same text, and (c) one engine instance used for 2-3 trees in a row with equal file names, different contents, relative "
                  "context directories and a refused tree in between, (d) one file cache object parsed and run repeatedly and by four goroutines at once, also with the main workflow registered under a key that equals the name of its loop's file, (e) input files with scalars a type-resolving reader would re-type, compared with direct execution on the same scalars; oracles: (a) == (b) == reference in id and data, outputIsError == declared flag (inferred: id is "
                  "'error'), identical results across working directories / cache kinds / repetitions; plus the real command line binary (scripted deployer registered by "
                  "an overlaid init) for the exit-code table 0 / 2 / 3 / 1 and the printed output id and data; distinct = (tree shape, output kind, access variant)")
    check.assumptions = ["exit code for an invalid *input* file is not asserted (the CLI reports it as a failed run)"]
    items = []
    variants = [("abs", {"cache": "context"}), ("rel", {"cache": "context", "rel_dir": True, "chdir": "elsewhere/deep"}), ("subdir-ctx", {"cache": "context", "dir": "ctx", "chdir": "other"}),
                ("memory", {"cache": "memory"}), ("rel-ctx-in-cwd", {"cache": "context", "dir": "ctx", "rel_dir": True}),
                # the working directory changes between building the file cache and parsing; in the second variant the same relative
                # path below the new working directory holds a different tree (every plugin source renamed)
                ("rel+chdir-before-parse", {"cache": "context", "dir": "ctx", "rel_dir": True, "chdir": "one/two", "chdir_before_parse": "three/x/y"}),
                # the files change on disk after the cache was loaded and the same cache object is loaded again
                ("reloaded-after-change", {"cache": "context", "stale": True}),
                # the same file cache object parsed and run three times in a row
                ("same-cache-again", {"cache": "context", "again": 2}),
                ("rel+chdir-before-parse+decoy", {"cache": "context", "dir": "ctx", "rel_dir": True, "chdir": "one/two", "chdir_before_parse": "p/q/r", "decoy": True})]
    metas = {}
    for i in range(n):
        rng = random.Random(derive_seed(check.seed, "c20", i))
        g = tree(rng, i)
        case, sem = runfam.build_case("c20-%04d-direct" % i, g)
        items.append(case)
        metas[case["id"]] = (g, sem, "direct", i)
        vs = variants if not check.quick() else rng.sample(variants, 5)
        for vname, eng in vs:
            for rep in range(2 if vname == "abs" else 1):
                eng = dict(eng)
                if eng.get("stale") is True:
                    eng["stale"] = {name: text.replace("src: ", "src: old_").replace('"src": "', '"src": "old_') for name, text in g["program"].files().items()}
                if eng.get("decoy") is True:
                    eng["decoy"] = {name: text.replace("src: ", "src: decoy_").replace('"src": "', '"src": "decoy_') for name, text in g["program"].files().items()}
                c = {"id": "c20-%04d-%s-%d" % (i, vname, rep), "mode": "engine", "files": g["program"].files(), "scripts": g["scripts"], "runs": [{"input": g["input"]}],
                     "extra": {"engine": dict(eng)}}
                items.append(c)
                metas[c["id"]] = (g, sem, vname, i)
    # one engine instance used for several trees in a row: trees with the same file names and different contents, a tree that
    # is refused in between, relative context directories - each tree's result depends on its own directory only
    seq_cases = []
    for k in range(check.pick(16, 120)):
        rng = random.Random(derive_seed(check.seed, "c20-seq", k))
        elems, sems = [], []
        for pos in range(rng.choice([2, 3])):
            g = tree(rng, 1000 * k + pos)
            # same file names, different plugin sources per position
            files = {name: text.replace("src: ", "src: p%d_" % pos).replace('"src": "', '"src": "p%d_' % pos) for name, text in g["program"].files().items()}
            scripts = {"p%d_%s" % (pos, src): sc for src, sc in g["scripts"].items()}
            elems.append({"files": files, "input_yaml": json.dumps(g["input"]), "rel_dir": rng.random() < 0.6, "_g": g, "_scripts": scripts, "_pos": pos})
        if rng.random() < 0.5:
            # a tree that gets as far as preparation and is refused there (its sub-workflow has no success output)
            bad = {"workflow.yaml": 'version: v0.2.0\ninput: {root: RootObject, objects: {RootObject: {id: RootObject, properties: {tag: {type: {type_id: string}}}}}}\n'
                                    'steps:\n  loop: {kind: foreach, workflow: sub.yaml, items: [{tag: !expr "$.input.tag"}]}\noutputs:\n  success: {d: !expr "$.steps.loop.outputs.success.data"}\n',
                   "sub.yaml": 'version: v0.2.0\ninput: {root: Item, objects: {Item: {id: Item, properties: {tag: {type: {type_id: string}}}}}}\n'
                               'steps:\n  w: {plugin: {src: leaf_w, deployment_type: scripted}, input: {tag: !expr "$.input.tag"}}\noutputs:\n  done: {t: !expr "$.steps.w.outputs.success.tag"}\n'}
            elems.insert(1, {"files": bad, "input_yaml": '{"tag": "x"}', "rel_dir": rng.random() < 0.5, "_g": None, "_scripts": {}, "_pos": -1})
        scripts = {}
        for e in elems:
            scripts.update(e["_scripts"])
        seq_cases.append(({"id": "c20-q%04d" % k, "mode": "engine_seq", "files": {}, "scripts": scripts, "runs": [],
                           "extra": {"sequence": [{kk: v for kk, v in e.items() if not kk.startswith("_")} for e in elems]}}, elems))
    # the caller registers the main workflow (in a sub-directory) under a key that is also the name of the file its loop runs;
    # the same cache object is parsed and run three times: every time the main workflow is the main workflow
    MAIN = ('version: v0.2.0\ninput: {root: RootObject, objects: {RootObject: {id: RootObject, properties: {tag: {type: {type_id: string}}}}}}\n'
            'steps:\n  loop: {kind: foreach, workflow: %s, items: [{tag: !expr "$.input.tag"}, {tag: k}]}\noutputs:\n  success: {level: main, d: !expr "$.steps.loop.outputs.success.data"}\n')
    SUB = ('version: v0.2.0\ninput: {root: Item, objects: {Item: {id: Item, properties: {tag: {type: {type_id: string}}}}}}\n'
           'steps:\n  w: {plugin: {src: leaf_w, deployment_type: scripted}, input: {tag: !expr "$.input.tag"}}\noutputs:\n  success: {level: leaf, t: !expr "$.steps.w.outputs.success.tag"}\n')
    clash_cases = []
    for k, (key, subname) in enumerate([("workflow.yaml", "workflow.yaml"), ("sub.yaml", "sub.yaml"), ("workflow", "workflow"), ("wf", "sub.yaml")]):
        for again, par in ((2, 0), (0, 4)):
            clash_cases.append(({"id": "c20-k%03d" % len(clash_cases), "mode": "engine", "main": "flows/main.yaml", "files": {"flows/main.yaml": MAIN % subname, subname: SUB}, "scripts": {}, "runs": [],
                                 "extra": {"engine": {"cache": "context", "main_key": key, "again": again, "parallel_parses": par, "input_yaml": "{tag: T}"}}}, key, subname, "again" if again else "parallel"))
    # input files whose scalars a type-resolving YAML reader would re-type: through the engine API the workflow is given the same
    # values as when the text of every scalar is handed to Execute directly
    from ..model import InputSchema
    tsch = InputSchema({"s": {"type": "string"}, "i": {"type": "integer"}, "fl": {"type": "float"}, "v": {"type": "string", "required": False}})
    text_cases = []
    for k, (text, strs) in enumerate([("s: 007\ni: 12\nfl: 1.5\n", {"s": "007", "i": "12", "fl": "1.5"}), ("s: 1.10\ni: 010\nfl: 1.50\nv: 0x1F\n", {"s": "1.10", "i": "010", "fl": "1.50", "v": "0x1F"}),
                                      ("s: 1_000\ni: -07\nfl: 1e3\nv: 2001-01-01\n", {"s": "1_000", "i": "-07", "fl": "1e3", "v": "2001-01-01"}), ("{s: yes, i: '08', fl: '3.0', v: on}\n", {"s": "yes", "i": "08", "fl": "3.0", "v": "on"}),
                                      ("s: plain\ni: 5\nfl: 0.5\n", {"s": "plain", "i": "5", "fl": "0.5"})]):
        a = gen.plugin_step("a", Expr(In("s")), extra_input={"n": Expr(In("i")), "f": Expr(In("fl")), "a": Expr(In())})
        prog = Program([a], {"success": {"a": Expr(Ref("a", "outputs", "success")), "all": Expr(In())}}, tsch)
        sc = gen.make_scripts([a], {})
        text_cases.append(({"id": "c20-t%03d-engine" % k, "mode": "engine", "files": prog.files(), "scripts": sc, "runs": [], "extra": {"engine": {"cache": "context", "input_yaml": text}}},
                           {"id": "c20-t%03d-direct" % k, "files": prog.files(), "scripts": sc, "runs": [{"input": strs}]}, text))
    # trees with a loop that is switched off by a constant (its sub-workflow file is named by no other loop), at the top level
    # and one or two levels down: from disk and prepared directly they give the same result
    from ..model import OrDisabled
    for k, (v, depth) in enumerate([(False, 0), ("no", 0), (0, 1), ("false", 1), (False, 2)]):
        leaf = gen.sub_program("off.yaml", 1)
        off = Step("off", "foreach", sub=leaf, items=[{"tag": "i0"}])
        off.fields["enabled"] = v
        a = gen.plugin_step("a", Expr(In("tag")), src="lvl%d_a" % depth)
        prog = Program([a, off], {"success": {"a": gen.tagref("a"), "l": OrDisabled(Ref("off", "outputs", "success"))}}, gen.SUB_INPUT if depth else gen.BASE_INPUT, name="lvl%d.yaml" % depth if depth else "workflow.yaml")
        for d in range(depth, 0, -1):
            wrap = Step("w%d" % d, "foreach", sub=prog, items=[{"tag": Expr(In("tag"))}])
            prog = Program([wrap], {"success": {"d": Expr(Ref("w%d" % d, "outputs", "success", "data"))}}, gen.SUB_INPUT if d > 1 else gen.BASE_INPUT, name="wrap%d.yaml" % d if d > 1 else "workflow.yaml")
        sc = gen.make_scripts(prog.steps, {})
        text_cases.append(({"id": "c20-o%03d-engine" % k, "mode": "engine", "files": prog.files(), "scripts": sc, "runs": [], "extra": {"engine": {"cache": "context", "input_yaml": "{tag: T}"}}},
                           {"id": "c20-o%03d-direct" % k, "files": prog.files(), "scripts": sc, "runs": [{"input": {"tag": "T"}}]}, "loop switched off by the constant %r at depth %d" % (v, depth)))
    # explicit output schemas with optional properties that have defaults and are not produced: what comes back is what the
    # workflow produced, through the engine as directly
    for k, flag in enumerate([None, False, True]):
        a = gen.plugin_step("a", Expr(In("tag")))
        props = {"t": {"type": {"type_id": "string"}}, "severity": {"type": {"type_id": "string"}, "required": False, "default": "\"low\""}, "count": {"type": {"type_id": "integer"}, "required": False, "default": "3"},
                 "given": {"type": {"type_id": "string"}, "required": False, "default": "\"unused\""}}
        entry = {"schema": {"root": "R", "objects": {"R": {"id": "R", "properties": props}}}}
        if flag is not None:
            entry["error"] = flag
        oid = "error" if k == 1 else "success"
        prog = Program([a], {oid: {"t": gen.tagref("a"), "given": "explicitly"}}, gen.BASE_INPUT, output_schema={oid: entry})
        sc = gen.make_scripts([a], {})
        text_cases.append(({"id": "c20-d%03d-engine" % k, "mode": "engine", "files": prog.files(), "scripts": sc, "runs": [], "extra": {"engine": {"cache": "context", "input_yaml": "{tag: T}"}}},
                           {"id": "c20-d%03d-direct" % k, "files": prog.files(), "scripts": sc, "runs": [{"input": {"tag": "T"}}]}, "explicit output schema with defaulted optional properties (output %r, error flag %r)" % (oid, flag)))
    stats = {"trees": n, "engine_runs": 0, "direct_runs": 0, "error_flag_true": 0, "error_flag_false": 0, "cli_runs": 0, "rejected": 0}
    with harness.Runner(instrument=False) as rn:
        out = rn.run_cases(items, per_case_timeout=60)
        kout = rn.run_cases([c for c, _k, _s, _h in clash_cases] + [c for pair in text_cases for c in pair[:2]], per_case_timeout=60)
    for ce, cd, text in text_cases:
        check.count()
        oe, od = kout.get(ce["id"], {}), kout.get(cd["id"], {})
        if "result" not in oe or "result" not in od:
            check.inconclusive_case(ce["id"], "no result")
            continue
        re_, rd = (oe["result"].get("runs") or [{}])[0], (od["result"].get("runs") or [{}])[0]
        if oe["result"].get("prepare_err") or od["result"].get("prepare_err") or (re_.get("out_id"), ref.denum(re_.get("data")), bool(re_.get("err"))) != (rd.get("out_id"), ref.denum(rd.get("data")), bool(rd.get("err"))):
            check.report("api@input-file-differs-from-direct" if text.startswith(("s:", "{s:")) else "api@engine-differs-from-direct:directed", "%r: the engine API returned (%r, %r, %s) but executing the prepared workflow on the same scalars returns (%r, %r, %s)" % (
                text, re_.get("out_id"), re_.get("data"), (re_.get("err") or oe["result"].get("prepare_err") or "")[:100], rd.get("out_id"), rd.get("data"), (rd.get("err") or "")[:100]), {"case": ce})
        elif not re_.get("out_id"):
            check.fail_broken("directed engine-versus-direct case did not run: %r" % (re_,))
        check.nontrivial("input-text|%d" % len(text))
    for case, key, subname, how in clash_cases:
        o = kout.get(case["id"], {})
        check.count()
        if "death" in o or "result" not in o:
            d = o.get("death", {})
            if d.get("kind") in ("panic", "fatal"):
                check.report("api@key-clash:" + d["key"], "main workflow registered under the key %r, loop over the file %r (%s): process died: %s" % (key, subname, how, d.get("message", "")[:200]), {"case": case, "detail": d.get("detail", "")[:2000]})
            else:
                check.inconclusive_case(case["id"], str(d.get("key")))
            continue
        res = o["result"]
        runs = res.get("runs") or []
        if res.get("parse_err") or res.get("prepare_err") or not runs:
            check.report("api@key-clash:refused", "main workflow registered under the key %r, loop over the file %r: refused: %s" % (key, subname, (res.get("parse_err") or res.get("prepare_err") or "no run")[:200]), {"case": case})
            continue
        for rr in runs:
            data = ref.denum(rr.get("data")) or {}
            if rr.get("out_id") != "success" or data.get("level") != "main" or len(data.get("d") or []) != 2:
                check.report("api@key-clash:%s" % how, "main workflow registered under the key %r, loop over the file %r, run %r: expected the main workflow's output with two item results, got (%r, %r, %s)" % (
                    key, subname, rr.get("tag") or "first", rr.get("out_id"), rr.get("data"), (rr.get("err") or "")[:150]), {"case": case})
                break
        keys = (res.get("extra") or {}).get("cache_keys")
        if keys is not None and keys != 1:
            check.report("api@caller-cache-modified", "the caller's file cache holds %d entries after Parse (it was built with one)" % keys, {"case": case})
        check.nontrivial("key-clash|%s|%s|%s" % (key, subname, how))
    with harness.Runner(instrument=False) as rn:
        seq_out = rn.run_cases([c for c, _e in seq_cases], per_case_timeout=120)
        cli_results = run_cli(check, rn, stats)
    for case, elems in seq_cases:
        o = seq_out.get(case["id"], {})
        check.count()
        if "result" not in o:
            check.inconclusive_case(case["id"], str(o.get("death", {}).get("key")))
            continue
        runs = o["result"].get("runs") or []
        changed = (o["result"].get("extra") or {}).get("cwd_changed") or []
        if changed:
            check.report("api@working-directory-changed", "the working directory of the process was different after the engine handled element(s) %s of a sequence" % changed, {"case": case})
        for pos, (e, rr) in enumerate(zip(elems, runs)):
            if e["_g"] is None:
                if not rr.get("err"):
                    check.report("api@accepted-refused-tree", "the tree without a success output in its sub-workflow was accepted at position %d" % pos, {"case": case})
                continue
            g = e["_g"]
            # the reference of this element: its own program with the renamed sources
            import copy
            prog = copy.deepcopy(g["program"])
            renamed = set()
            for st in prog.all_plugin_steps():
                if id(st) not in renamed:  # a sub-workflow shared by two loops is one object
                    renamed.add(id(st))
                    st.src = "p%d_%s" % (e["_pos"], st.src)
            sm = ref.RefSem(prog, e["_scripts"], ref.normalise_input(prog.input_schema, g["input"]))
            v = compare(sm.result(), rr)
            if v:
                check.report("api@sequence:" + v[0], "element %d of a sequence of trees through one engine (%s, %s context directory): %s" % (pos, g["shape"], "relative" if e["rel_dir"] else "absolute", v[1]),
                             {"case": case, "run": rr})
            stats["sequence_runs"] = stats.get("sequence_runs", 0) + 1
        check.nontrivial("seq|%d|%s" % (len(elems), any(e["_g"] is None for e in elems)))
    direct = {}
    for cid in sorted(out):
        g, sem, vname, i = metas[cid]
        o = out[cid]
        check.count()
        if "death" in o:
            d = o["death"]
            check.inconclusive_case(cid, "%s %s" % (d["kind"], d["key"]))
            continue
        res = o["result"]
        if res.get("parse_err") or res.get("prepare_err"):
            stats["rejected"] += 1
            check.report("api@rejected:" + vname, "tree %d (%s) was rejected through %s: %s" % (i, g["shape"], vname, (res.get("parse_err") or res.get("prepare_err"))[:300]), {"files": g["program"].files(), "variant": vname})
            continue
        run = res["runs"][0]
        exp = sem.result()
        for later in res["runs"][1:]:
            v = compare(exp, later)
            if v:
                check.report("api@same-cache-again:" + v[0], "tree %d (%s): the same file cache parsed and run again (%s): %s" % (i, g["shape"], later.get("tag"), v[1]), {"files": g["program"].files(), "variant": vname, "run": later})
        v = compare(exp, run)
        if v:
            check.report("api@%s:%s" % ("direct" if vname == "direct" else "engine", v[0]), "tree %d (%s) via %s: %s" % (i, g["shape"], vname, v[1]), {"files": g["program"].files(), "variant": vname, "run": run})
        if vname == "direct":
            stats["direct_runs"] += 1
            direct[i] = run
            continue
        stats["engine_runs"] += 1
        check.nontrivial("%s|%s" % (g["shape"], vname))
        d = direct.get(i)
        if d is not None and (d.get("out_id") != run.get("out_id") or ref.denum(d.get("data")) != ref.denum(run.get("data"))) and not ref.has_freedom(exp["avail"].get(run.get("out_id"))):
            check.report("api@engine-differs-from-direct:" + vname, "tree %d (%s): engine API via %s returned (%r, %r), direct execution (%r, %r)" % (
                i, g["shape"], vname, run.get("out_id"), run.get("data"), d.get("out_id"), d.get("data")), {"files": g["program"].files(), "variant": vname})
        ex = res.get("extra") or {}
        flag = ex.get("output_is_error")
        if run.get("out_id"):
            want = g["expect_error_flag"] if run["out_id"] != "success" else False
            stats["error_flag_true" if flag else "error_flag_false"] += 1
            if flag != want:
                check.report("api@error-flag:" + g["out_kind"], "tree %d (%s) via %s: output %r flagged outputIsError=%r, expected %r" % (i, g["shape"], vname, run["out_id"], flag, want),
                             {"files": g["program"].files(), "variant": vname})
        if len(check.samples) < 3 and "depth=3" in g["shape"]:
            check.sample({"tree": i, "shape": g["shape"], "files": sorted(g["program"].files()), "variant": vname, "result": run.get("out_id"), "output_is_error": flag})
    for r in cli_results:
        if r.get("expected_print") and r["exit"] == r["expected_exit"]:
            import re
            want_id, want_data = r["expected_print"]
            m = re.search(r"^output_id: (\S+)\s*$", r["stdout"], re.M)
            got_id = m.group(1).strip("'\"") if m else None
            missing = []
            for k, v in want_data.items():
                mm = re.search(r"^\s+%s: (.+)$" % re.escape(k), r["stdout"], re.M)
                if not mm or (v is not None and mm.group(1).strip().strip("'\"") != v):
                    missing.append(k)
            stats["cli_outputs_compared"] = stats.get("cli_outputs_compared", 0) + 1
            if got_id != want_id or missing:
                check.report("cli@printed-output:%s" % r["row"], "command line run (%s): printed output id %r (expected %r), data fields missing or different: %s; stdout: %r" % (
                    r["row"], got_id, want_id, missing, r["stdout"][-300:]), r)
        if r["exit"] != r["expected_exit"]:
            check.report("cli@exit-code:%s" % r["row"], "command line run (%s): exit code %d, expected %d; stderr: %s" % (r["row"], r["exit"], r["expected_exit"], r["stderr"][-300:]), r)
        elif len(check.samples) < 5:
            check.sample({"cli_row": r["row"], "exit": r["exit"], "stdout": r["stdout"][:120]})
    check.extra.update(stats)


def compare(exp, rr):
    out_id, err = rr.get("out_id") or "", rr.get("err") or ""
    if exp["avail"]:
        if err:
            return ("error-but-producible", "failed (%s) although %s producible" % (err[:200], sorted(exp["avail"])))
        if out_id not in exp["avail"]:
            return ("unproducible-output", "returned %r, producible %s" % (out_id, sorted(exp["avail"])))
        m = ref.match(exp["avail"][out_id], ref.denum(rr.get("data")))
        if m:
            return ("data", "output %r: %s" % (out_id, m))
    elif not exp["pending"] and not err:
        return ("output-but-none-producible", "returned %r" % out_id)
    return None


def run_cli(check, rn, stats):
    """Exit-code table of the real command line program."""
    work = rn.work
    try:
        binp, _ = build.build_runner(work, instrument=False, pkg="cmd/arcaflow", out="arcaflow-verif")
    except build.BuildError as e:
        check.fail_broken("cannot build the command line program: %s" % str(e)[-500:])
        return []
    rows = []
    rng = random.Random(derive_seed(check.seed, "c20-cli"))
    base = tree(rng, 0)
    a = gen.plugin_step("a", Expr(In("tag")))
    prog = Program([a], {"success": {"a": gen.tagref("a")}, "error": {"why": Expr(Ref("a", "outputs", "error", "reason"))}}, gen.BASE_INPUT)
    cfg = "deployers:\n  scripted:\n    deployer_name: scripted\nlog:\n  level: error\n"
    table = [("ok", prog.files(), {"a": {}}, '{"tag": "x"}', 0), ("error-output", prog.files(), {"a": {"exec": {"outcome": "error"}}}, '{"tag": "x"}', 2),
             ("failed-run", prog.files(), {"a": {"exec": {"outcome": "crash"}}}, '{"tag": "x"}', 3), ("invalid-workflow", {"workflow.yaml": "version: v0.2.0\nsteps: {}\n"}, {}, '{"tag": "x"}', 1),
             ("missing-workflow", {"other.yaml": "x"}, {}, '{"tag": "x"}', 1)]
    # what the program must print for a run that produced an output: its id and data, as the engine API returns them
    printed = {"ok": ("success", {"a": "a(x)"}), "error-output": ("error", {"why": None})}
    for row, files, scripts, inp, want in table:
        for cwd_kind in ("in-context", "elsewhere"):
            d = tempfile.mkdtemp(prefix="cli-", dir=work)
            ctx = os.path.join(d, "ctx")
            os.makedirs(ctx)
            for name, content in files.items():
                p = os.path.join(ctx, name)
                os.makedirs(os.path.dirname(p), exist_ok=True)
                open(p, "w").write(content)
            open(os.path.join(ctx, "config.yaml"), "w").write(cfg)
            open(os.path.join(ctx, "input.yaml"), "w").write(inp)
            env = dict(os.environ, VERIF_SCRIPTS=json.dumps(scripts))
            if cwd_kind == "in-context":
                cmd, cwd = [binp, "-config", "config.yaml", "-input", "input.yaml"], ctx
            else:
                cmd, cwd = [binp, "-context", ctx, "-config", "config.yaml", "-input", "input.yaml"], d
            try:
                p = subprocess.run(cmd, cwd=cwd, env=env, capture_output=True, text=True, timeout=60)
                rows.append({"row": row + "/" + cwd_kind, "exit": p.returncode, "expected_exit": want, "stdout": p.stdout[-400:], "stderr": p.stderr[-600:], "expected_print": printed.get(row)})
            except subprocess.TimeoutExpired:
                rows.append({"row": row + "/" + cwd_kind, "exit": -1, "expected_exit": want, "stdout": "", "stderr": "timeout"})
            stats["cli_runs"] += 1
            check.count()
            check.nontrivial("cli|" + row + "|" + cwd_kind)
    return rows
