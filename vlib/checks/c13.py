"""C13 - a loop step returns per-item results in item order within its parallelism."""
import random

from .. import gen, harness, mon, ref, runfam
from ..core import Check, derive_seed
from ..model import Expr, In, Ref, Program, Step, InputSchema, Lit, Bin


def loop_case(check, i):
    rng = random.Random(derive_seed(check.seed, "c13", i))
    n = rng.choice([0, 1, 2, 3, 7, 7, 16, 64] if not check.quick() else [0, 1, 2, 3, 7, 16])
    par_kind = rng.choice(["default", "1", "2", "n", "gt", "expr"])
    par = {"default": None, "1": 1, "2": 2, "n": max(n, 1), "gt": n + 3, "expr": Expr(In("n"))}[par_kind]
    nsub = rng.choice([1, 1, 2])
    with_err = rng.random() < 0.35
    nested = rng.random() < 0.15 and n <= 7
    if nested:
        inner = gen.sub_program("sub2.yaml", 1)
        sub = Program([Step("inner", "foreach", sub=inner, items=[{"tag": Expr(In("tag"))}, {"tag": "fixed"}], parallelism=rng.choice([1, 2]))],
                      {"success": {"t": Expr(Ref("inner", "outputs", "success", "data"))}}, gen.SUB_INPUT, name="sub.yaml")
        first_src = "sub2_w0"
    else:
        sub = gen.sub_program("sub.yaml", nsub, with_err, other_output=rng.choice([None, None, "skipped", "partial-result"]))
        first_src = "sub_w0"
    fe = Step("loop", "foreach", sub=sub, items=Expr(In("items")))
    if par is not None:
        fe.fields["parallelism"] = par
    steps = [fe]
    if rng.random() < 0.3:
        steps.append(gen.plugin_step("after", Expr(In("tag")), extra_input={"a": Expr(Ref("loop", "outputs", "success", "data"))}))
    outs = {"success": {"d": Expr(Ref("loop", "outputs", "success", "data"))}, "failed": {"e": Expr(Ref("loop", "failed", "error"))}}
    prog = Program(steps, outs, gen.BASE_INPUT)
    scripts = gen.make_scripts(steps, {})
    items = [{"tag": "i%d" % k} for k in range(n)]
    inp = {"tag": "T1", "n": rng.choice([1, 2, 3, 5]), "items": items}
    by_tag = {}
    fail_mode = rng.choice(["none", "none", "one", "some", "all"])
    for k in range(n):
        if fail_mode == "all" or (fail_mode == "one" and k == n // 2) or (fail_mode == "some" and rng.random() < 0.4):
            by_tag["i%d" % k] = {"outcome": rng.choice(["error", "crash", "alt"])}
    trig = []
    eff_par = 1 if par is None else (par if isinstance(par, int) else inp["n"])
    if n >= 2 and eff_par >= 2 and not nested and rng.random() < 0.6:
        # out-of-order completion: item 0 finishes only after item 1 did
        e0 = dict(by_tag.get("i0", {"outcome": "success"}))
        e0["gate"] = "g0"
        by_tag["i0"] = e0
        trig.append({"kind": "exec-end", "src": first_src, "nth": 1, "action": "open:g0"})
    if by_tag:
        scripts.setdefault(first_src, {})["exec_by_tag"] = by_tag
        if nested:
            # inner items are tagged by the outer item's tag: failures keyed by it
            pass
    g = {"program": prog, "scripts": scripts, "input": inp, "shape": "loop n=%d par=%s sub=%d err=%s nested=%s fail=%s" % (n, par_kind, nsub, with_err, nested, fail_mode),
         "outcome": by_tag, "n": n, "par": eff_par, "first_src": first_src, "nested": nested}
    return g, trig


def hwm(res, src):
    """High-water mark of concurrently open executions of a plugin source."""
    cur = mx = 0
    open_conns = set()
    for e in res.get("events") or []:
        if e["src"] != src:
            continue
        if e["kind"] == "exec-start":
            open_conns.add(e["conn"])
            mx = max(mx, len(open_conns))
        elif e["kind"] == "exec-end":
            open_conns.discard(e["conn"])
    return mx


def deploy_hwm(res, src):
    """High-water mark of concurrently open run-time deployments of a plugin source."""
    open_conns, mx = set(), 0
    for e in res.get("events") or []:
        if e["src"] != src:
            continue
        if e["kind"] == "deploy-ok" and mon._nth(e) >= 2:
            open_conns.add(e["conn"])
            mx = max(mx, len(open_conns))
        elif e["kind"] == "conn-close":
            open_conns.discard(e["conn"])
    return mx


def deploy_inflight_hwm(res, src):
    """High-water mark of run-time deployments of a plugin source that are in progress or open (from the deployment call until
    the connection is closed or the deployment has failed)."""
    cur = mx = 0
    for e in res.get("events") or []:
        if e["src"] != src:
            continue
        if e["kind"] == "deploy-call" and mon._nth(e) >= 2:
            cur += 1
            mx = max(mx, cur)
        elif e["kind"] == "deploy-fail" or (e["kind"] == "conn-close" and cur > 0):
            cur -= 1
    return mx


def monitor(case, res, sem):
    vs = [v for v in mon.monitor_run(case, res, sem) if v.prop in ("C03", "C02", "C04", "C08")]
    out = []
    for v in vs:
        out.append(mon.V("C13", "loop@" + v.key, v.what))
    return out


def run(check):
    n = check.pick(300, 4000)
    check.rule = ("foreach programs: item counts {0,1,2,3,7,16,64}, parallelism {default,1,2,n,>n,expression}, sub-workflows of 1-2 steps with or without a declared error "
                  "output, nested loops, per-item outcomes (success/error/crash/alt) and out-of-order completion forced by gates (item 0 finishes after item 1), a "
                  "consumer of the loop result, cancellation mid-loop, bursts of 16-64 items failing together, loops over an earlier step's result with slow items, loops (top-level and inside items) closed while still waiting for their items, items with item-dependent deployment configurations, trees with equally named sub-workflow files through one step registry; oracles: returned data equals the reference (length, order, per-item provenance tag, exact "
                  "failing index sets), every item execution received its own item, high-water mark of concurrently open item executions <= parallelism, cancelled "
                  "loops never report success; non-trivial = >=2 items; distinct = (n, parallelism, failure pattern, out-of-order, returned id)")
    check.assumptions = ["an item 'fails' if its run returns an error or a non-success output (property statement)"]
    items, trigs = [], {}
    for i in range(n):
        g, trig = loop_case(check, i)
        opts = {}
        if trig:
            opts["triggers"] = trig
        case, sem = runfam.build_case("c13-%05d" % i, g, **opts)
        items.append((case, sem, g))
    # very large parallelism values (the schema has no maximum; people write them to say "no limit"), as constants and from the input
    for i, par in enumerate([1 << 31, 1 << 40, 1 << 50, 1 << 62, (1 << 63) - 1] * check.pick(1, 3)):
        rng = random.Random(derive_seed(check.seed, "c13-hugepar", i))
        nn = rng.choice([1, 3, 5])
        sub = gen.sub_program("sub.yaml", 1)
        fe = Step("loop", "foreach", sub=sub, items=Expr(In("items")), parallelism=par if i % 2 == 0 else Expr(In("n")))
        prog = Program([fe], {"success": {"d": Expr(Ref("loop", "outputs", "success", "data"))}, "failed": {"e": Expr(Ref("loop", "failed", "error"))}}, gen.BASE_INPUT)
        g = {"program": prog, "scripts": gen.make_scripts([fe], {}), "input": {"tag": "T1", "n": par, "items": [{"tag": "i%d" % k} for k in range(nn)]}, "shape": "loop n=%d par=2^%d" % (nn, par.bit_length() - (0 if par & (par - 1) else 1)),
             "outcome": {}, "n": nn, "par": nn, "first_src": "sub_w0", "nested": False}
        case, sem = runfam.build_case("c13-hp%04d" % i, g)
        items.append((case, sem, g))
    # cancellation while the loop is in progress: every item hangs until cancelled
    for i in range(check.pick(30, 200)):
        rng = random.Random(derive_seed(check.seed, "c13-cancel", i))
        nn = rng.choice([3, 7, 12])
        par = rng.choice([1, 2, 3])
        sub = gen.sub_program("sub.yaml", 1)
        fe = Step("loop", "foreach", sub=sub, items=Expr(In("items")), parallelism=par)
        prog = Program([fe], {"success": {"d": Expr(Ref("loop", "outputs", "success", "data"))}, "failed": {"e": Expr(Ref("loop", "failed", "error"))}}, gen.BASE_INPUT)
        scripts = gen.make_scripts([fe], {})
        k = rng.randrange(1, min(par, nn) + 1)
        scripts["sub_w0"]["exec_by_tag"] = {"i%d" % j: {"outcome": "hang", "on_cancel": "error"} for j in range(nn)}
        g = {"program": prog, "scripts": scripts, "input": {"tag": "T1", "items": [{"tag": "i%d" % j} for j in range(nn)]}, "shape": "cancel mid-loop n=%d par=%d at start #%d" % (nn, par, k),
             "outcome": {}, "n": nn, "par": par, "first_src": "sub_w0", "nested": False, "cancelled": True}
        case, sem = runfam.build_case("c13-c%04d" % i, g, triggers=[{"kind": "exec-start", "src": "sub_w0", "nth": k, "action": "cancel:0"}])
        items.append((case, sem, g))
    # many items whose sub-workflow runs end with an error at the same moment (parallelism >= number of items)
    for i in range(check.pick(100, 400)):
        rng = random.Random(derive_seed(check.seed, "c13-burst", i))
        nn = rng.choice([16, 32, 64])
        sub = gen.sub_program("sub.yaml", 1)
        fe = Step("loop", "foreach", sub=sub, items=Expr(In("items")), parallelism=rng.choice([nn, 8, 16]))
        prog = Program([fe], {"success": {"d": Expr(Ref("loop", "outputs", "success", "data"))}, "failed": {"e": Expr(Ref("loop", "failed", "error"))}}, gen.BASE_INPUT)
        scripts = gen.make_scripts([fe], {})
        mode = rng.choice(["all", "odd"])
        # the first wave of executions is released together, so that the item runs end at the same instant
        by_tag = {"i%d" % j: {"outcome": "crash" if (mode == "all" or j % 2) else "success", "gate": "go"} for j in range(nn)}
        scripts["sub_w0"]["exec_by_tag"] = by_tag
        g = {"program": prog, "scripts": scripts, "input": {"tag": "T1", "items": [{"tag": "i%d" % j} for j in range(nn)]}, "shape": "burst of failing items n=%d fail=%s" % (nn, mode),
             "outcome": by_tag, "n": nn, "par": fe.fields["parallelism"], "first_src": "sub_w0", "nested": False}
        case, sem = runfam.build_case("c13-b%04d" % i, g, triggers=[{"kind": "exec-start", "src": "sub_w0", "nth": min(nn, fe.fields["parallelism"]), "action": "open:go"}])
        items.append((case, sem, g))
    # a loop over the result of an earlier step whose items take a while (slow deployment of the sub-workflow's step): nothing
    # else is active while the items run
    for i in range(check.pick(20, 120)):
        rng = random.Random(derive_seed(check.seed, "c13-after", i))
        nn = rng.choice([2, 3, 5])
        par = rng.choice([1, 2])
        sub = gen.sub_program("sub.yaml", 1)
        how = rng.choice(["items", "wait_for"])
        fe = Step("loop", "foreach", sub=sub, parallelism=par,
                  items=[{"tag": gen.tagref("a")}] + [{"tag": "k%d" % j} for j in range(nn - 1)] if how == "items" else [{"tag": "k%d" % j} for j in range(nn)])
        if how == "wait_for":
            fe.fields["wait_for"] = Expr(Ref("a", "outputs", "success"))
        steps = [gen.plugin_step("a", Expr(In("tag"))), fe]
        rng.shuffle(steps)
        prog = Program(steps, {"success": {"d": Expr(Ref("loop", "outputs", "success", "data"))}, "failed": {"e": Expr(Ref("loop", "failed", "error"))}}, gen.BASE_INPUT)
        scripts = gen.make_scripts(steps, {})
        scripts["sub_w0"]["deploys"] = [{}, {"delay_ms": rng.choice([45, 80])}]
        g = {"program": prog, "scripts": scripts, "input": {"tag": "T1"}, "shape": "loop after a step, slow items n=%d par=%d via %s" % (nn, par, how), "outcome": {}, "n": nn, "par": par,
             "first_src": "sub_w0", "nested": False}
        case, sem = runfam.build_case("c13-a%04d" % i, g)
        items.append((case, sem, g))
    # a loop that is closed while it still waits for its items: the step it waits for ends otherwise (error output, crash, failed
    # deployment) - at the top level, and inside the items of an outer loop (the outer loop must report exactly those items)
    for i in range(check.pick(40, 240)):
        rng = random.Random(derive_seed(check.seed, "c13-noinput", i))
        how = rng.choice(["items", "wait_for"])
        bad = rng.choice(["error", "crash", "deployfail"])
        nested = i % 2 == 1

        def waiting_loop(name, subname, src_step):
            inner = gen.sub_program(subname, 1)
            fe = Step(name, "foreach", sub=inner, parallelism=rng.choice([1, 2]),
                      items=[{"tag": gen.tagref(src_step)}, {"tag": "k"}] if how == "items" else [{"tag": "k0"}, {"tag": "k1"}])
            if how == "wait_for":
                fe.fields["wait_for"] = Expr(Ref(src_step, "outputs", "success"))
            return fe
        if not nested:
            steps = [gen.plugin_step("a", Expr(In("tag"))), waiting_loop("loop", "sub.yaml", "a")]
            rng.shuffle(steps)
            prog = Program(steps, {"success": {"d": Expr(Ref("loop", "outputs", "success", "data"))}, "failed": {"e": Expr(Ref("loop", "failed", "error"))}}, gen.BASE_INPUT)
            scripts = gen.make_scripts(steps, {"a": bad})
            g = {"program": prog, "scripts": scripts, "input": {"tag": "T1"}, "shape": "loop closed while waiting for its %s (source: %s)" % (how, bad), "outcome": {"a": bad}, "n": 2, "par": 2,
                 "first_src": "sub_w0", "nested": True}
        else:
            nn = rng.choice([2, 3, 4])
            substeps = [gen.plugin_step("w", Expr(In("tag")), src="sub_w"), waiting_loop("inner", "sub2.yaml", "w")]
            rng.shuffle(substeps)
            sub = Program(substeps, {"success": {"t": Expr(Ref("inner", "outputs", "success", "data"))}}, gen.SUB_INPUT, name="sub.yaml")
            fe = Step("loop", "foreach", sub=sub, items=Expr(In("items")), parallelism=rng.choice([1, 2, nn]))
            prog = Program([fe], {"success": {"d": Expr(Ref("loop", "outputs", "success", "data"))}, "failed": {"e": Expr(Ref("loop", "failed", "error"))}}, gen.BASE_INPUT)
            scripts = gen.make_scripts([fe], {})
            failing = sorted(rng.sample(range(nn), rng.choice([1, nn]) if nn > 1 else 1))
            by_tag = {"i%d" % j: {"outcome": "crash" if bad == "deployfail" else bad} for j in failing}
            scripts.setdefault("sub_w", {})["exec_by_tag"] = by_tag
            g = {"program": prog, "scripts": scripts, "input": {"tag": "T1", "items": [{"tag": "i%d" % j} for j in range(nn)]},
                 "shape": "inner loop closed while waiting for its %s in items %s of %d (source: %s)" % (how, failing, nn, bad), "outcome": by_tag, "n": nn, "par": nn, "first_src": "sub_w", "nested": True}
        case, sem = runfam.build_case("c13-w%04d" % i, g)
        items.append((case, sem, g))
    # items that differ in the deployment configuration of the sub-workflow's step (an item-dependent `deploy` section): each
    # item is deployed with its own configuration, so exactly the items whose configuration makes the deployment fail are reported
    from ..model import InputSchema
    for i in range(check.pick(30, 200)):
        rng = random.Random(derive_seed(check.seed, "c13-deploycfg", i))
        nn = rng.choice([2, 4, 6])
        par = rng.choice([1, 2, nn])
        w0 = gen.plugin_step("w0", Expr(In("tag")), src="sub_w0", deploy={"deployer_name": "scripted", "tag": Expr(In("tag")), "fail": Expr(In("bad"))})
        sub = Program([w0], {"success": {"t": gen.tagref("w0")}}, InputSchema({"tag": {"type": "string"}, "bad": {"type": "bool"}}, root="Item"), name="sub.yaml")
        bad = [rng.random() < 0.4 for _ in range(nn)]
        if i % 3 == 0:
            bad = [k % 2 == 1 for k in range(nn)]
        elif i % 3 == 1:
            bad = [k == 0 for k in range(nn)]
        fe = Step("loop", "foreach", sub=sub, items=[{"tag": "i%d" % k, "bad": bad[k]} for k in range(nn)], parallelism=par)
        prog = Program([fe], {"success": {"d": Expr(Ref("loop", "outputs", "success", "data"))}, "failed": {"e": Expr(Ref("loop", "failed", "error"))}}, gen.BASE_INPUT)
        g = {"program": prog, "scripts": gen.make_scripts([fe], {}), "input": {"tag": "T1"}, "shape": "item-dependent deployment configuration n=%d par=%d failing=%s" % (nn, par, [k for k in range(nn) if bad[k]]),
             "outcome": {"i%d" % k: {"outcome": "deployfail"} for k in range(nn) if bad[k]}, "n": nn, "par": par, "first_src": "sub_w0", "nested": True}
        case, sem = runfam.build_case("c13-d%04d" % i, g)
        items.append((case, sem, g))
    # nested loops in which the result of an outer item is decided (by a quick sibling step) while its inner loop is still
    # deploying its items: the item run ends by closing the inner loop, and only then is its slot free for the next outer item
    nested_early = []
    for i in range(check.pick(10, 60)):
        rng = random.Random(derive_seed(check.seed, "c13-nested-early", i))
        opar, ipar = rng.choice([1, 1, 2]), rng.choice([1, 2])
        nouter, ninner = rng.choice([3, 4]), rng.choice([2, 3])
        inner = gen.sub_program("sub2.yaml", 1)
        q = gen.plugin_step("q", Expr(In("tag")), src="sub_q")
        il = Step("inner", "foreach", sub=inner, items=[{"tag": "n%d" % k} for k in range(ninner)], parallelism=ipar)
        substeps = [q, il]
        rng.shuffle(substeps)
        sub = Program(substeps, {"success": {"t": gen.tagref("q")}}, gen.SUB_INPUT, name="sub.yaml")
        fe = Step("loop", "foreach", sub=sub, items=Expr(In("items")), parallelism=opar)
        prog = Program([fe], {"success": {"d": Expr(Ref("loop", "outputs", "success", "data"))}, "failed": {"e": Expr(Ref("loop", "failed", "error"))}}, gen.BASE_INPUT)
        scripts = gen.make_scripts([fe], {})
        scripts["sub2_w0"]["deploys"] = [{}, {"delay_ms": rng.choice([60, 120])}]
        nested_early.append(({"id": "c13-ne%04d" % i, "files": prog.files(), "scripts": scripts, "runs": [{"input": {"tag": "T1", "items": [{"tag": "i%d" % k} for k in range(nouter)]}}]}, opar, ipar, nouter))
    # one step registry used for two or three trees whose loops name the same sub-workflow file with different contents: every
    # loop runs the sub-workflow of its own tree
    seq_cases = []
    for j in range(check.pick(12, 80)):
        rng = random.Random(derive_seed(check.seed, "c13-seq", j))
        progs = []
        for k, nsub in enumerate(rng.sample([1, 2, 3], 2) + [rng.choice([1, 2, 3])]):
            sub = gen.sub_program("sub.yaml", nsub, with_error_output=(k == 1))
            loop = Step("loop", "foreach", sub=sub, items=Expr(In("items")), parallelism=rng.choice([1, 2]))
            progs.append(Program([loop], {"success": {"d": Expr(Ref("loop", "outputs", "success", "data"))}, "failed": {"e": Expr(Ref("loop", "failed", "error"))}}, gen.BASE_INPUT))
        inputs = [{"tag": "Q", "items": [{"tag": "q%d_%d_%d" % (j, k, q)} for q in range(rng.choice([1, 3]))]} for k in range(len(progs))]
        scripts = {}
        for pr in progs:
            scripts.update(gen.make_scripts(pr.steps, {}))
        seq = [{"files": pr.files(), "input": inp} for pr, inp in zip(progs, inputs)]
        sems = [ref.RefSem(pr, scripts, ref.normalise_input(pr.input_schema, inp)) for pr, inp in zip(progs, inputs)]
        seq_cases.append(({"id": "c13-q%04d" % j, "mode": "seq", "files": {}, "scripts": scripts, "runs": [], "extra": {"sequence": seq}, "no_events": True}, sems))
    stats = {"max_hwm": 0, "hwm_equal_parallelism": 0, "out_of_order_runs": 0, "success_results": 0, "failure_results": 0, "cancelled_runs": 0}
    with harness.Runner() as rn:
        if not rn.hang_oracle_works():
            check.fail_broken("the hang oracle (Go runtime deadlock report) does not fire in this build")
        out = rn.run_cases([c for c, _s, _g in items], per_case_timeout=90)
        seq_out = rn.run_cases([c for c, _s in seq_cases], per_case_timeout=90)
        ne_out = rn.run_cases([c for c, _o, _i, _n in nested_early], per_case_timeout=90)
    for case, opar, ipar, nouter in nested_early:
        o = ne_out.get(case["id"], {})
        check.count()
        if "result" not in o or o["result"].get("prepare_err") or o["result"].get("parse_err"):
            check.inconclusive_case(case["id"], str(o.get("death", {}).get("key") or o.get("result", {}).get("prepare_err")))
            continue
        res = o["result"]
        run = (res.get("runs") or [{}])[0]
        shape = "nested loops, outer result decided early (outer parallelism %d, inner %d, %d outer items)" % (opar, ipar, nouter)
        d = (ref.denum(run.get("data")) or {}).get("d") or []
        if run.get("out_id") != "success" or [x.get("t") for x in d] != ["sub_q(i%d)" % k for k in range(nouter)]:
            check.report("loop@nested-early:result", "%s: expected success with the %d item results in order, got %r / %r / %s" % (shape, nouter, run.get("out_id"), run.get("data"), (run.get("err") or "")[:200]), {"case": case})
        dh = deploy_inflight_hwm(res, "sub2_w0")
        if dh > opar * ipar:
            check.report("loop@item-runs-beyond-parallelism", "%s: %d deployments of the inner loop's step were in progress or open at once - more than %d outer item runs can hold" % (shape, dh, opar), {"case": case, "result": runfam.strip(res)})
        ret = [e["seq"] for e in res.get("events") or [] if e["kind"] == "execute-return"]
        late = [e for e in res.get("events") or [] if ret and e["seq"] > ret[0] and e["src"] == "sub2_w0" and e["kind"] in ("deploy-ok", "deploy-call", "exec-start", "conn-close")]
        if late:
            check.report("loop@nested-early:active-after-return", "%s: the inner loop's step was still being deployed or closed after the run had returned: %s" % (shape, [(e["seq"], e["kind"]) for e in late][:4]),
                         {"case": case, "result": runfam.strip(res)})
        if res.get("open_conns"):
            check.report("loop@nested-early:left-running", "%s: %d plugin connection(s) still open when the run returned" % (shape, res["open_conns"]), {"case": case, "result": runfam.strip(res)})
        check.nontrivial(shape)
    for case, sems in seq_cases:
        o = seq_out.get(case["id"], {})
        check.count()
        if "result" not in o:
            check.inconclusive_case(case["id"], str(o.get("death", {}).get("key")))
            continue
        for pos, (sm, rr) in enumerate(zip(sems, o["result"].get("runs") or [])):
            exp = sm.result()["avail"].get("success")
            m = "run failed: %s" % rr["err"][:200] if rr.get("err") else ref.match(exp, ref.denum(rr.get("data")))
            if m:
                check.report("loop@sub-workflow-of-another-tree", "tree %d of a sequence through one step registry (same sub-workflow file name, other contents): the loop's result is not that of its own sub-workflow: %s" % (pos, m),
                             {"case": case, "run": rr})
        check.nontrivial("seq|%d" % len(sems))
    by_id = {c["id"]: (c, s, g) for c, s, g in items}
    for cid in sorted(out):
        o = out[cid]
        case, sem, g = by_id[cid]
        check.count()
        if "death" in o:
            d = o["death"]
            if d["kind"] == "deadlock":
                check.report("loop@hang:" + d["key"][len("deadlock@"):][:120], "loop run hung (%s): %s" % (g["shape"], d["key"]), {"case": case, "detail": d.get("detail", "")[:3000]})
            elif d["kind"] in ("panic", "fatal"):
                check.report("loop@crash:" + d["key"][:120], "process died while a loop was running (%s): %s" % (g["shape"], d.get("message", "")[:200]), {"case": case, "detail": d.get("detail", "")[:3000]})
            else:
                check.inconclusive_case(cid, "%s %s" % (d["kind"], d["key"]))
            continue
        res = o["result"]
        if res.get("parse_err") or res.get("prepare_err"):
            check.extra["rejected"] = check.extra.get("rejected", 0) + 1
            check.extra.setdefault("rejected_samples", []).append((res.get("parse_err") or res.get("prepare_err"))[:200])
            continue
        run = res["runs"][0]
        if g.get("cancelled"):
            stats["cancelled_runs"] += 1
            if "bug:" in (run.get("err") or "").lower():
                check.report("loop@cancelled:internal-consistency-error", "loop cancelled while items were running (%s): the run ended with an internal consistency error: %s" % (g["shape"], run["err"][:300]),
                             {"case": case, "result": runfam.strip(res)})
            if run.get("out_id") == "failed":
                # the loop's failure report accounts for every item: each index has a result or a message
                rep = (ref.denum(run.get("data")) or {}).get("e") or {}
                have = set(int(k) for k in (rep.get("data") or {})) | set(int(k) for k in (rep.get("errors") or {}))
                missing = sorted(set(range(g["n"])) - have)
                if missing:
                    check.report("loop@cancelled:items-missing-from-report", "loop cancelled while items were running (%s): items %s have neither a result nor a message in the failure report %r" % (g["shape"], missing, rep),
                                 {"case": case, "result": runfam.strip(res)})
            if run.get("out_id") == "success":
                check.report("loop@success-after-cancel", "loop cancelled while items were running reported success: %r" % (run.get("data"),), {"case": case, "result": runfam.strip(res)})
            h = hwm(res, g["first_src"])
            if h > g["par"]:
                check.report("loop@parallelism-exceeded", "%d item executions open at once, parallelism %d (%s)" % (h, g["par"], g["shape"]), {"case": case, "result": runfam.strip(res)})
            # every item run holds its parallelism slot from before it deploys the sub-workflow's plugin until after that
            # plugin is closed, so never more than `parallelism` deployments of the sub-step may be open at once - also
            # while the loop is being cancelled (items that were queued may still start once a slot is released)
            dh = deploy_hwm(res, g["first_src"])
            if dh > g["par"]:
                check.report("loop@item-runs-beyond-parallelism", "%d item runs (deployments of the sub-workflow step) were open at once during cancellation, parallelism %d (%s)" % (dh, g["par"], g["shape"]),
                             {"case": case, "result": runfam.strip(res)})
            check.nontrivial(g["shape"])
            continue
        for v in monitor(case, res, sem):
            check.report(v.key, "case %s (%s): %s" % (cid, g["shape"], v.what), {"case": case, "violation": v.to_json(), "result": runfam.strip(res)})
        if not g["nested"]:
            h = hwm(res, g["first_src"])
            stats["max_hwm"] = max(stats["max_hwm"], h)
            if h > g["par"]:
                check.report("loop@parallelism-exceeded", "%d item executions open at once, parallelism %d (%s)" % (h, g["par"], g["shape"]), {"case": case, "result": runfam.strip(res)})
            if h == g["par"] and g["par"] > 1:
                stats["hwm_equal_parallelism"] += 1
            dh = deploy_hwm(res, g["first_src"])
            if dh > g["par"]:
                check.report("loop@item-runs-beyond-parallelism", "%d item runs (deployments of the sub-workflow's first step) were open at once, parallelism %d (%s)" % (dh, g["par"], g["shape"]),
                             {"case": case, "result": runfam.strip(res)})
        if case.get("triggers"):
            stats["out_of_order_runs"] += 1
        stats["success_results" if run.get("out_id") == "success" else "failure_results"] += 1
        if g["n"] >= 2:
            check.nontrivial("%s|%s" % (g["shape"], run.get("out_id") or run.get("err_type")))
        if len(check.samples) < 4 and g["n"] in (3, 7) and g["outcome"]:
            check.sample({"case": cid, "shape": g["shape"], "per_item_outcomes": g["outcome"], "returned": run.get("out_id"), "data": run.get("data"), "hwm": hwm(res, g["first_src"])})
    check.extra.update(stats)
    if check.extra.get("rejected", 0) > len(items) * 0.1:
        check.fail_broken("too many rejected programs: %s" % check.extra.get("rejected_samples")[:3])
