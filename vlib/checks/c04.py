"""C04 - a step never executes if a prerequisite failed, it is disabled or stopped first."""
import random

from .. import gen, harness, mon, ref, runfam
from ..core import Check, derive_seed
from ..model import Expr, Ref, In, Not, Lit, Bin, Program, Step, OrDisabled

FAILS = ["error", "alt", "crash", "drop", "deployfail"]


def positional(check):
    """A failing / disabled step at every position of chains, diamonds and fans, every failure kind."""
    out = []
    shapes = [("chain4", lambda rng: gen.shape_chain(rng, 4)), ("diamond", gen.shape_diamond), ("fan_in_step4", lambda rng: gen.shape_fan_in_step(rng, 4)),
              ("fan_out3", lambda rng: gen.shape_fan_out(rng, 3)), ("wait_for", gen.shape_wait_for), ("deploy_expr", gen.shape_deploy_expr)]
    for name, fn in shapes:
        rng = random.Random(derive_seed(check.seed, "c04", name))
        steps0, _ = fn(rng)
        for pos, s0 in enumerate(steps0):
            for kind in FAILS + ["disabled", "disabled-expr", "disabled-literal", "enabled-literal"]:
                rng = random.Random(derive_seed(check.seed, "c04", name))
                steps, outs = fn(rng)
                outcome = {}
                s = steps[pos]
                if kind == "disabled":
                    s.fields["enabled"] = Expr(Not(In("flag")))
                elif kind == "disabled-expr":
                    s.fields["enabled"] = Expr(Bin("==", In("tag"), Lit("never-equal")))
                elif kind == "disabled-literal":
                    s.fields["enabled"] = False  # written as the constant `false` in the workflow file
                elif kind == "enabled-literal":
                    s.fields["enabled"] = True
                else:
                    outcome[s.name] = kind
                outs["dis_" + s.name] = {"m": OrDisabled(Ref(s.name, "outputs", "success"))}
                gen.add_error_outputs(rng, steps, outs, outcome, maxn=2)
                prog = Program(steps, outs, gen.BASE_INPUT)
                inp = gen.base_input(rng)
                inp["flag"] = True
                out.append({"program": prog, "scripts": gen.make_scripts(steps, outcome), "input": inp, "shape": "%s@%d:%s" % (name, pos, kind), "outcome": outcome or {s.name: kind}})
    return out


def two_hop_stop(check, i):
    """Stop source S, blocker S2 (input refers to S), target X (stop_if refers to S, input refers to S2):
    the stop condition reaches X in the run-loop pass that releases S2, i.e. before X's input can exist."""
    rng = random.Random(derive_seed(check.seed, "c04-stop", i))
    steps = [gen.plugin_step("S", Expr(In("tag"))),
             gen.plugin_step("S2", gen.tagref("S")),
             gen.plugin_step("X", gen.tagref("S2"), stop_if=rng.choice([Expr(Ref("S", "outputs", "success", "tag")), Expr(Ref("S", "outputs", "success")), Expr(Bin("==", Ref("S", "outputs", "success", "tag"), Lit("S(%s)" % "T1")))]))]
    steps[2].stop_mode = "before"
    if rng.random() < 0.5:
        steps.append(gen.plugin_step("Y", gen.tagref("X")))
    outs = {"success": {"x": gen.tagref("X")}, "stopped": {"r": Expr(Ref("X", "closed", "result")), "s2": gen.tagref("S2")}}
    prog = Program(steps, outs, gen.BASE_INPUT)
    inp = gen.base_input(rng)
    inp["tag"] = "T1"
    return {"program": prog, "scripts": gen.make_scripts(steps, {}), "input": inp, "shape": "two_hop_stop", "outcome": {"X": "stopped-before-start"}}


def stop_while_running(check, i):
    """X never ends by itself; the stop source S is released only after X's execution has started, so the stop condition
    reaches X while it is running: X must get the cancel signal (not be started again, not be left running) and the step that
    depends on X's regular success output must not run."""
    rng = random.Random(derive_seed(check.seed, "c04-while", i))
    on_cancel = rng.choice(["error", "success", "ignore"])
    X = gen.plugin_step("X", Expr(In("tag")), stop_if=Expr(Ref("S", "outputs", "success", "tag")))
    if on_cancel == "ignore":
        X.fields["closure_wait_timeout"] = 30
    X.stop_mode = "while"
    steps = [gen.plugin_step("S", Expr(In("tag"))), X, gen.plugin_step("Y", Expr(Ref("X", "outputs", "error", "reason")))]
    outs = {"x_ok": {"x": gen.tagref("X")}, "x_cancelled": {"y": gen.tagref("Y")}, "x_killed": {"why": Expr(Ref("X", "crashed", "error", "output"))}}
    scripts = gen.make_scripts(steps, {})
    scripts["X"]["exec"] = {"outcome": "hang", "on_cancel": on_cancel}
    scripts["S"]["exec"] = {"outcome": "success", "gate": "x_started"}
    prog = Program(steps, outs, gen.BASE_INPUT)
    g = {"program": prog, "scripts": scripts, "input": {"tag": "T1"}, "shape": "stop_while_running/" + on_cancel, "outcome": {"X": "stopped-while-running:" + on_cancel}}
    return g, [{"kind": "exec-start", "src": "X", "nth": 1, "action": "open:x_started"}]


def loop_other_output(check, j):
    """A loop whose sub-workflow declares a further output; one item ends in it, so the loop did not succeed and the step
    that needs the loop's success output must not run."""
    rng = random.Random(derive_seed(check.seed, "c04-loop", j))
    nsub = rng.choice([1, 2])
    sub = gen.sub_program("sub.yaml", nsub, with_error_output=rng.random() < 0.5, other_output="skipped")
    loop = Step("loop", "foreach", sub=sub, items=Expr(In("items")), parallelism=rng.choice([1, 2, 3]))
    how = rng.choice(["wait_for", "input"])
    if how == "wait_for":
        z = gen.plugin_step("z", Expr(In("tag")), wait_for=Expr(Ref("loop", "outputs", "success")))
    else:
        z = gen.plugin_step("z", Expr(In("tag")), extra_input={"a": Expr(Ref("loop", "outputs", "success", "data"))})
    steps = [loop, z]
    rng.shuffle(steps)
    outs = {"success": {"z": gen.tagref("z")}, "loop_failed": {"e": Expr(Ref("loop", "failed", "error"))}}
    n = rng.choice([1, 2, 4])
    items = [{"tag": "i%d" % k} for k in range(n)]
    bad = rng.randrange(n)
    scripts = gen.make_scripts(steps, {})
    scripts.setdefault("sub_w%d" % (nsub - 1), {})["exec_by_tag"] = None
    prog = Program(steps, outs, gen.BASE_INPUT)
    # the last sub step of item `bad` ends in `alt`, which feeds the sub-workflow's other output
    last_src = "sub_w%d" % (nsub - 1)
    tag = "i%d" % bad
    for k in range(nsub - 1):
        tag = "sub_w%d(%s)" % (k, tag)
    scripts[last_src]["exec_by_tag"] = {tag: {"outcome": "alt"}}
    return {"program": prog, "scripts": scripts, "input": {"tag": "T1", "items": items}, "shape": "loop-item-ends-in-other-output/%s/n=%d" % (how, n), "outcome": {"loop": "item %d other output" % bad}}


def chained_enablement(check, j):
    """A step enabled by the enabling result of another step; the other step is disabled, so the condition is false."""
    rng = random.Random(derive_seed(check.seed, "c04-chain", j))
    flag = rng.random() < 0.3
    gate = gen.plugin_step("gate", Expr(In("tag")), enabled=Expr(In("flag")))
    follower = gen.plugin_step("follower", Expr(In("tag")), enabled=Expr(Ref("gate", "enabling", "resolved", "enabled")))
    steps = [gate, follower]
    if rng.random() < 0.5:
        steps.append(gen.plugin_step("third", gen.tagref("follower")))
    rng.shuffle(steps)
    outs = {"ran": {"f": gen.tagref(steps[-1].name if steps[-1].name == "third" else "follower")},
            "skipped": {"m": Expr(Ref("follower", "disabled", "output", "message"))}}
    prog = Program(steps, outs, gen.BASE_INPUT)
    return {"program": prog, "scripts": gen.make_scripts(steps, {}), "input": {"tag": "T1", "flag": flag}, "shape": "chained-enablement/gate-%s" % ("enabled" if flag else "disabled"),
            "outcome": {} if flag else {"gate": "disabled"}}


def faulting_condition(check, j):
    """A step whose `enabled` condition cannot be evaluated (division by zero over workflow input or over a step's result): the
    condition never became true, so the step must not run - the run ends with an error."""
    rng = random.Random(derive_seed(check.seed, "c04-fault", j))
    a = gen.plugin_step("a", Expr(In("tag")), extra_input={"n": Expr(In("n"))})
    src = rng.choice(["input", "step"])
    n = In("n") if src == "input" else Ref("a", "outputs", "success", "n")
    cond = Bin(rng.choice([">=", ">", "=="]), Bin("/", Lit(100), Bin("-", n, n)), Lit(1))
    guarded = gen.plugin_step("guarded", gen.tagref("a"), enabled=Expr(cond))
    variant = rng.choice(["enabled", "enabled", "wait_for-optional", "input-optional"])
    if variant != "enabled":
        # the same, for a wait-optional member (its source was produced, so it is due - and cannot be evaluated)
        from ..model import Call, Opt
        bad = Opt(Call("stringToInt", Ref("a", "outputs", "success", "tag")), True) if src == "step" else Opt(Bin("/", Lit(100), Bin("-", In("n"), In("n"))), True)
        if variant == "wait_for-optional":
            guarded = gen.plugin_step("guarded", gen.tagref("a"), wait_for={"x": bad})
        else:
            guarded = gen.plugin_step("guarded", gen.tagref("a"), extra_input={"a": {"x": bad}})
        src = src + "/" + variant
    steps = [a, guarded]
    if rng.random() < 0.5:
        steps.append(gen.plugin_step("after", gen.tagref("guarded")))
    rng.shuffle(steps)
    outs = {"ran": {"g": gen.tagref("after" if any(s_.name == "after" for s_ in steps) else "guarded")}, "skipped": {"m": Expr(Ref("guarded", "disabled", "output", "message"))}}
    prog = Program(steps, outs, gen.BASE_INPUT)
    return {"program": prog, "scripts": gen.make_scripts(steps, {}), "input": {"tag": "T1", "n": rng.choice([0, 3, -2])}, "shape": "faulting-enabled-condition/" + src, "outcome": {"guarded": "condition cannot be evaluated"}}


def stopped_before_deployment(check, j):
    """X waits for its deployment configuration (it comes from a slow step) when its stop condition fires: X is closed, it did
    not fail to deploy - the handler that waits for X's deploy_failed output must not run."""
    rng = random.Random(derive_seed(check.seed, "c04-predeploy", j))
    S = gen.plugin_step("S", Expr(In("tag")))
    slow = gen.plugin_step("slow", Expr(In("tag")))
    X = gen.plugin_step("X", Expr(In("tag")), deploy={"deployer_name": "scripted", "tag": gen.tagref("slow")}, stop_if=Expr(Ref("S", "outputs", "success", "tag")))
    X.stop_mode = "before"
    how = rng.choice(["wait_for", "input"])
    if how == "wait_for":
        H = gen.plugin_step("H", Expr(In("tag")), wait_for=Expr(Ref("X", "deploy_failed", "error")))
    else:
        H = gen.plugin_step("H", Expr(Ref("X", "deploy_failed", "error", "error")))
    steps = [S, slow, X, H]
    rng.shuffle(steps)
    outs = {"x_closed": {"c": Expr(Ref("X", "closed", "result")), "s": gen.tagref("slow")}, "handler_ran": {"h": gen.tagref("H"), "s": gen.tagref("slow")}, "x_ran": {"x": gen.tagref("X")}}
    scripts = gen.make_scripts(steps, {})
    scripts["slow"]["exec"] = {"outcome": "success", "gate": "s_done"}
    prog = Program(steps, outs, gen.BASE_INPUT)
    g = {"program": prog, "scripts": scripts, "input": {"tag": "T1"}, "shape": "stopped-while-waiting-for-deployment-configuration/" + how, "outcome": {"X": "stopped-before-deployment"}}
    return g, [{"kind": "conn-close", "src": "S", "nth": 2, "action": "open:s_done"}]


def stopped_while_enabling(check, j):
    """X waits for its `enabled` value (it comes from a slow step) when its stop condition fires: X is closed, it was never
    disabled - a step that accepts X's success or X's disabled output (!ordisabled), or that is enabled by X's enabling result,
    must not run."""
    from ..model import OrDisabled
    rng = random.Random(derive_seed(check.seed, "c04-preenable", j))
    S = gen.plugin_step("S", Expr(In("tag")))
    slow = gen.plugin_step("slow", Expr(In("tag")))
    X = gen.plugin_step("X", Expr(In("tag")), enabled=Expr(Bin("==", gen.tagref("slow").node, Lit("slow(T1)"))), stop_if=Expr(Ref("S", "outputs", "success", "tag")))
    X.stop_mode = "enabling"
    how = rng.choice(["wait_for-ordisabled", "input-ordisabled", "enabled-by-enabling-result"])
    if how == "wait_for-ordisabled":
        H = gen.plugin_step("H", Expr(In("tag")), wait_for=OrDisabled(Ref("X", "outputs", "success")))
    elif how == "input-ordisabled":
        H = gen.plugin_step("H", Expr(In("tag")), extra_input={"a": OrDisabled(Ref("X", "outputs", "success"))})
    else:
        H = gen.plugin_step("H", Expr(In("tag")), enabled=Expr(Ref("X", "enabling", "resolved", "enabled")))
    steps = [S, slow, X, H]
    rng.shuffle(steps)
    outs = {"x_closed": {"c": Expr(Ref("X", "closed", "result")), "s": gen.tagref("slow")}, "handler_ran": {"h": gen.tagref("H"), "s": gen.tagref("slow")}, "x_ran": {"x": gen.tagref("X")},
            "x_disabled": {"m": Expr(Ref("X", "disabled", "output", "message")), "s": gen.tagref("slow")}}
    scripts = gen.make_scripts(steps, {})
    scripts["slow"]["exec"] = {"outcome": "success", "gate": "s_done"}
    prog = Program(steps, outs, gen.BASE_INPUT)
    g = {"program": prog, "scripts": scripts, "input": {"tag": "T1"}, "shape": "stopped-while-waiting-to-be-enabled/" + how, "outcome": {"X": "stopped-while-enabling"}}
    return g, [{"kind": "conn-close", "src": "S", "nth": 2, "action": "open:s_done"}]


def loop_disabled_by_constant(check, j):
    """A loop step disabled by a constant in the workflow file (every spelling of false the bool type has): none of its items may
    run, and the step that needs the loop's result must not run either."""
    rng = random.Random(derive_seed(check.seed, "c04-loopconst", j))
    v = [False, "false", "no", "off", 0, "0", "n", "FALSE", "disabled"][j % 9]
    sub = gen.sub_program("sub.yaml", rng.choice([1, 2]))
    loop = Step("loop", "foreach", sub=sub, items=Expr(In("items")), parallelism=rng.choice([1, 2]))
    loop.fields["enabled"] = v
    after = gen.plugin_step("after", Expr(In("tag")), wait_for=Expr(Ref("loop", "outputs", "success")))
    steps = [loop, after]
    rng.shuffle(steps)
    outs = {"ran": {"d": Expr(Ref("loop", "outputs", "success", "data")), "a": gen.tagref("after")}, "skipped": {"m": Expr(Ref("loop", "disabled", "output", "message"))}}
    return {"program": Program(steps, outs, gen.BASE_INPUT), "scripts": gen.make_scripts(steps, {}), "input": gen.base_input(rng, 2), "shape": "loop-disabled-by-constant/%r" % (v,), "outcome": {"loop": "disabled"}}


def start_failure_stage_reference(check, j):
    """A's start fails after its deployment succeeded (the deployed plugin answers with a closed stream, garbage, another schema);
    B refers to A's whole `starting` stage (or its `started` output): that stage never completed, so B must not run."""
    rng = random.Random(derive_seed(check.seed, "c04-startfail", j))
    fault = [{"hello": "eof"}, {"schema": "renamed"}, {"hello": "garbage"}, {"schema": "mismatch"}, {"hello": "badversion"}][j % 5]
    how = ["wait_for-stage", "input-stage", "wait_for-started", "wait_for-stage-in-map"][(j // 5) % 4]
    A = gen.plugin_step("A", Expr(In("tag")))
    node = {"wait_for-stage": Expr(Ref("A", "starting")), "input-stage": None, "wait_for-started": Expr(Ref("A", "starting", "started")), "wait_for-stage-in-map": {"s": Expr(Ref("A", "starting"))}}[how]
    if how == "input-stage":
        B = gen.plugin_step("B", Expr(In("tag")), extra_input={"a": Expr(Ref("A", "starting"))})
    else:
        B = gen.plugin_step("B", Expr(In("tag")), wait_for=node)
    steps = [A, B]
    rng.shuffle(steps)
    prog = Program(steps, {"crashed": {"why": Expr(Ref("A", "crashed", "error", "output"))}, "ran": {"b": gen.tagref("B")}}, gen.BASE_INPUT)
    scripts = gen.make_scripts(steps, {})
    scripts["A"]["deploys"] = [{}, dict(fault)]
    k, v = sorted(fault.items())[0]
    return {"program": prog, "scripts": scripts, "input": {"tag": "T1"}, "shape": "start-failure/%s=%s/%s" % (k, v, how), "outcome": {"A": "start-failed"}}


def stop_on_own_enabling(check, j):
    """X's stop condition is its own enabling result (or that of a sibling that is enabled in the same round): the condition fires
    in the very round in which X's starting input is handed over, before X has started - X is closed, never run."""
    rng = random.Random(derive_seed(check.seed, "c04-ownenable", j))
    how = ["own-resolved", "own-enabled-field", "own-with-wait_for", "own-with-enabled-expr"][j % 4]
    X = gen.plugin_step("X", Expr(In("tag")), stop_if=Expr(Ref("X", "enabling", "resolved")) if how != "own-enabled-field" else Expr(Ref("X", "enabling", "resolved", "enabled")))
    X.stop_mode = "before"
    steps = [X]
    if how == "own-with-wait_for":
        steps.append(gen.plugin_step("q", Expr(In("tag"))))
        X.fields["wait_for"] = Expr(Ref("q", "outputs", "success"))
    if how == "own-with-enabled-expr":
        X.fields["enabled"] = Expr(In("flag"))
    Y = gen.plugin_step("Y", gen.tagref("X"))
    steps.append(Y)
    rng.shuffle(steps)
    prog = Program(steps, {"ran": {"y": gen.tagref("Y")}, "stopped": {"r": Expr(Ref("X", "closed", "result"))}}, gen.BASE_INPUT)
    return {"program": prog, "scripts": gen.make_scripts(steps, {}), "input": {"tag": "T1", "flag": True}, "shape": "stop-condition-is-own-enabling-result/" + how, "outcome": {"X": "stopped-before-start"}}


def run(check):
    check.rule = ("a failing (error/alt/crash/drop/deploy failure) or disabled step placed at every position of 6 shapes (enumerated), the two-hop "
                  "stop-before-start construction, a loop item ending in another declared output with a step needing the loop's success, a step enabled by the enabling result "
                  "of a disabled step, a loop disabled by a constant in every spelling of false, the provider driven directly with the stop condition delivered just before the starting input, a step stopped while it waits for its deployment configuration or for its `enabled` value (with consumers of its deploy_failed / disabled / enabling results), plus generated programs; delays between failure notification and dependants via random plans; "
                  "oracle: set of plugin executions logged at the plugin boundary is a subset of the reference's may-run set, disabled steps expose "
                  "disabled.output through !ordisabled; non-trivial = at least one step must not run; distinct = (shape@position:kind, executed set)")
    check.assumptions = ["one-hop stop_if (stop source also feeds the target's input) is schedule dependent and not asserted"]
    gs = positional(check)
    for i in range(check.pick(20, 200)):
        gs.append(two_hop_stop(check, i))
    # the same construction with every assignment of {0, 40, 90} ms to the first three hits of the points at which a
    # step goroutine picks up its starting input: in some of them exactly the stopped step is the slow one
    targeted = []
    for pt in ("pl:runningStep.startStage:lock#1", "pl:runningStep.startStage:select#1"):
        for d1 in (0, 40, 90):
            for d2 in (0, 40, 90):
                for d3 in (0, 40, 90):
                    g = two_hop_stop(check, 1000 + len(targeted))
                    g["shape"] = "two_hop_stop/targeted"
                    sites = [{"point": pt, "hit": h + 1, "ms": d} for h, d in enumerate((d1, d2, d3)) if d]
                    targeted.append((g, {"sites": sites, "record": True} if sites else None))
    for j in range(check.pick(18, 90)):
        gs.append(loop_disabled_by_constant(check, j))
    for j in range(check.pick(20, 80)):
        gs.append(start_failure_stage_reference(check, j))

    for j in range(check.pick(24, 200)):
        gs.append(loop_other_output(check, j))
        gs.append(chained_enablement(check, j))
        gs.append(faulting_condition(check, j))
    for i in range(check.pick(150, 2500)):
        g = runfam.gen_terminating(check.seed, "c04-%d" % i, p_fail=0.4, outcomes=FAILS)
        if g is not None:
            gs.append(g)
    items = []
    for i, g in enumerate(gs):
        rng = random.Random(derive_seed(check.seed, "c04-opt", i))
        opts = {}
        if rng.random() < 0.35:
            opts["plan"] = {"seed": rng.randrange(1 << 30), "prob": 50, "choices": [-1, 1, 4, 12], "max_acts": 12, "record": True}
            opts["plan_scope"] = "execute"
        case, sem = runfam.build_case("c04-%05d" % i, g, **opts)
        items.append((case, sem, g))
    for j in range(check.pick(18, 150)):
        g, trig = stop_while_running(check, j)
        case, sem = runfam.build_case("c04-w%04d" % j, g, triggers=trig)
        items.append((case, sem, g))
    for j in range(check.pick(12, 100)):
        g, trig = stopped_before_deployment(check, j)
        case, sem = runfam.build_case("c04-d%04d" % j, g, triggers=trig)
        items.append((case, sem, g))
    for j in range(check.pick(18, 120)):
        g, trig = stopped_while_enabling(check, j)
        case, sem = runfam.build_case("c04-n%04d" % j, g, triggers=trig)
        items.append((case, sem, g))
    for j, (g, plan) in enumerate(targeted):
        opts = {"plan": plan, "plan_scope": "execute"} if plan else {}
        case, sem = runfam.build_case("c04-t%04d" % j, g, **opts)
        items.append((case, sem, g))
    stats = {"steps_that_must_not_run": 0, "steps_observed_not_running": 0, "stopped_before_start": 0}

    def on_result(cid, case, sem, g, res, vs):
        must_not = [s.src for s in sem.p.steps if s.kind == "plugin" and not sem.state(s.name).executed and sem.state(s.name).finishes]
        ran = sorted(set(e["src"] for e in res.get("events") or [] if e["kind"] == "exec-start"))
        if must_not:
            stats["steps_that_must_not_run"] += len(must_not)
            stats["steps_observed_not_running"] += len([m for m in must_not if m not in ran])
            check.nontrivial("%s|ran=%s" % (g["shape"], ran))
        if g["shape"].startswith("two_hop_stop"):
            run = (res.get("runs") or [{}])[0]
            if run.get("out_id") == "stopped":
                stats["stopped_before_start"] += 1
        check.sample({"case": cid, "shape": g["shape"], "must_not_run": must_not, "executed": ran})

    # the step provider driven directly: the step is deployed and enabled and waits for its starting input; its stop condition is
    # delivered and, in the next instant, its starting input: the plugin must not be executed and the step ends closed
    from . import c12
    direct = []
    for j in range(check.pick(60, 400)):
        sn = ["success", "hang-obey", "error-output"][j % 3]
        seq = [["D", "E1", "Z", "X", "S", "Z", "Z", "F"], ["D", "E1", "Z", "Z", "X", "S", "Z", "F"], ["D", "E1", "Z", "X", "S0", "Z", "Z", "F"], ["Dc", "E1", "Z", "X", "Sd", "Z", "Z", "F"]][(j // 3) % 4]
        direct.append({"id": "c04-p%04d" % j, "mode": "provider", "scripts": {"P": c12.SCRIPTS[sn]}, "extra": {"actions": c12.to_actions(seq), "src": "P"}, "_sn": sn, "_seq": seq})
    with harness.Runner() as rn:
        runfam.run_and_monitor(check, rn, items, {"C04"}, on_result=on_result, monitor=monitor)
        pout = rn.run_cases([{k: v for k, v in c.items() if not k.startswith("_")} for c in direct], per_case_timeout=60)
        own = []
        for j in range(check.pick(24, 120)):
            g = stop_on_own_enabling(check, j)
            own.append(({"id": "c04-o%04d" % j, "files": g["program"].files(), "scripts": g["scripts"], "runs": [{"input": g["input"]}]}, g))
        oout = rn.run_cases([c for c, _g in own], per_case_timeout=60)
    for case, g in own:
        o = oout.get(case["id"], {})
        check.count()
        res = o.get("result") or {}
        if "death" in o or res.get("prepare_err") or res.get("parse_err"):
            # (the reference does not interpret a stop condition on the step's own stage; if preparation refuses it, nothing is claimed)
            check.nontrivial("own-enabling|refused-or-died")
            continue
        ev = res.get("events") or []
        run = (res.get("runs") or [{}])[0]
        ran = sorted(set(e["src"] for e in ev if e["kind"] == "exec-start" and e["src"] in ("X", "Y")))
        if ran:
            check.report("exec@stopped-in-the-round-of-its-input", "%s: the stop condition (the step's own enabling result) was true before the step started, yet plugin(s) %s were executed; result %r / %s" % (
                g["shape"], ran, run.get("out_id"), (run.get("err") or "")[:150]), {"case": case, "result": runfam.strip(res)})
        elif run.get("out_id") != "stopped":
            check.report("stop@result", "%s: expected the output `stopped`, got %r / %s" % (g["shape"], run.get("out_id"), (run.get("err") or "")[:150]), {"case": case, "result": runfam.strip(res)})
        check.nontrivial(g["shape"])
    for c in direct:
        o = pout.get(c["id"], {})
        check.count()
        if "result" not in o:
            check.inconclusive_case(c["id"], str(o.get("death", {}).get("key")))
            continue
        ev = o["result"].get("events") or []
        waiting = [e["seq"] for e in ev if e["kind"] == "callback" and "starting" in str(e.get("data"))]
        started = [e for e in ev if e["kind"] == "exec-start"]
        if started:
            check.report("exec@stopped-before-start:provider", "behaviour %s, actions %s: the stop condition was delivered before the starting input, yet the plugin was executed" % (c["_sn"], c["_seq"]),
                         {"case": {k: v for k, v in c.items() if not k.startswith("_")}, "events": [(e["seq"], e["kind"], e["src"]) for e in ev][:60]})
        stats["stop_then_start_sequences"] = stats.get("stop_then_start_sequences", 0) + 1
        check.nontrivial("provider|%s|%s" % (c["_sn"], "".join(c["_seq"])))
    check.extra.update(stats)


def monitor(case, res, sem):
    vs = mon.monitor_run(case, res, sem)
    # a disabled step reports its disabled output instead: observed through !ordisabled outputs
    run = (res.get("runs") or [{}])[0]
    out_id = run.get("out_id") or ""
    if out_id.startswith("dis_"):
        exp = sem.result()["avail"].get(out_id)
        if exp is None:
            vs.append(mon.V("C04", "ordisabled@unexpected", "output %s returned but not producible" % out_id))
        else:
            m = ref.match(exp, ref.denum(run.get("data")))
            if m:
                vs.append(mon.V("C04", "ordisabled@data", "or-disabled output %s: %s" % (out_id, m)))
    if out_id == "stopped" or (sem.p.steps and getattr(sem.p.steps[-1], "stop_mode", None)):
        pass
    if any(getattr(s, "stop_mode", None) == "while" for s in sem.p.steps):
        ev = res.get("events") or []
        xs = [e for e in ev if e["kind"] == "exec-start" and e["src"] == "X"]
        sig = [e for e in ev if e["kind"] == "signal" and e["src"] == "X" and e.get("data") == "cancel"]
        if len(xs) != 1:
            vs.append(mon.V("C04", "stop@executions:%d" % len(xs), "step X stopped while running was executed %d times" % len(xs)))
        if xs and not sig:
            vs.append(mon.V("C04", "stop@no-cancel-signal", "step X was running when its stop condition fired but never received the cancel signal"))
        if xs and sig and sig[0]["seq"] < xs[0]["seq"]:
            vs.append(mon.V("C04", "stop@signal-before-start", "cancel signal logged before the execution started"))
    for v in vs:
        if v.prop == "C03" and any(getattr(s, "stop_mode", None) for s in sem.p.steps):
            vs.append(mon.V("C04", "stop@" + v.key, v.what))
    return vs
