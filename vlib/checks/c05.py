"""C05 - nothing is left running or deployed after a run or a parse returns (fault enumeration)."""
import random

from .. import cancelfam, gen, harness, mon, ref, runfam
from ..core import Check, derive_seed
from ..model import Program

PROBE_FAULTS = [{"fail": "probe deploy error"}, {"hello": "eof"}, {"hello": "garbage"}, {"hello": "badversion"}, {"hello": "badschema"}, {"close_err": "scripted close error"}, {"write_err": True}]
RUN_FAULTS = PROBE_FAULTS + [{"schema": "mismatch"}, {"schema": "renamed"}]


def fault_cases(check):
    """(step j, phase, fault kind) for a few shapes."""
    out = []
    shapes = ["chain", "diamond", "deploy_expr", "foreach_after", "fan_in"]
    for sh in shapes:
        rng = random.Random(derive_seed(check.seed, "c05-shape", sh))
        prog, scripts, name = cancelfam.prog_finishing(random.Random(derive_seed(check.seed, "c05-shape", sh)), sh)
        srcs = sorted(s.src for s in prog.all_plugin_steps())
        if check.quick():
            srcs = srcs[:3]
        for j, src in enumerate(srcs):
            for phase, faults in (("probe", PROBE_FAULTS), ("run", RUN_FAULTS)):
                for f in faults:
                    prog, scripts, name = cancelfam.prog_finishing(random.Random(derive_seed(check.seed, "c05-shape", sh)), sh)
                    sc = scripts.setdefault(src, {})
                    sc["deploys"] = [dict(f)] if phase == "probe" else [{}, dict(f)]
                    out.append({"program": prog, "scripts": scripts, "input": cancelfam.base_input(rng), "shape": "%s/%s@%s:%s" % (sh, phase, src, sorted(f.items())[0]),
                                "fault": (phase, src, sorted(f.items())[0][0] + "=" + str(sorted(f.items())[0][1]))})
    return out


def run(check):
    check.rule = ("fault enumeration: (a) every (step, phase in {schema probe, run-time deployment}, fault in {deploy error, EOF before hello, garbage hello, "
                  "wrong ATP version, invalid schema, error from Close, dead connection, remote schema mismatch, renamed remote step}) on 5 shapes; "
                  "(b) every single-failure position/kind of 6 shapes; (c) cancellation of the caller's context at every logged event index of "
                  "finishing programs and at every certain plugin-boundary event of never-ending programs (obeying / ignoring / without cancel handler, "
                  "blocked deployment, foreach in progress; deployments that take 15-40 ms to close), (d) a running step stopped by its stop condition and closed by force by "
                  "its provider while its crash report ends the run, (e) invalid input documents, (f) every goroutine-start / wait-group point delayed in runs "
                  "that do not need the delayed step; oracle at execute-return / prepare-return: deploy-ok minus conn-close == 0, no plugin-side "
                  "execution open, no goroutine blocked in engine code at the instant of return and none with an engine or ATP-client frame left after a settle "
                  "window (goroutine census from runtime.Stack); "
                  "non-trivial = a fault, failure or cancellation was injected; distinct = (shape, injected fault or cancel point)")
    check.assumptions = ["all plugin-side goroutines belong to the harness and are excluded by frame name",
                         "a goroutine still present 1 s after return is a leak; engine timers relevant here (10 ms detector retries) are far shorter"]
    from .c04 import positional
    gs = fault_cases(check)
    pos = positional(check)
    if check.quick():
        random.Random(derive_seed(check.seed, "c05-pos")).shuffle(pos)
        pos = pos[:60]
    gs += pos
    items = []
    idx = 0
    for g in gs:
        case, sem = runfam.build_case("c05-%05d" % idx, g)
        idx += 1
        items.append((case, sem, g))
    # ---- cancellation: phase 1 records the number of events of finishing programs
    fin = []
    for i in range(check.pick(6, 30)):
        rng = random.Random(derive_seed(check.seed, "c05-fin", i))
        sh = cancelfam.FINISHING[i % len(cancelfam.FINISHING)]
        prog, scripts, name = cancelfam.prog_finishing(rng, sh)
        if i % 3 == 2:
            scripts, name = cancelfam.slow_close(scripts, 15), name + "/slow-close"
        fin.append({"program": prog, "scripts": scripts, "input": cancelfam.base_input(rng), "shape": name})
    stats = {"cancel_points": 0, "faults": 0, "prepare_rejections": 0, "census_nonempty_at_return": 0, "max_settle_ms": 0.0}
    with harness.Runner() as rn:
        if not rn.hang_oracle_works():
            check.fail_broken("the hang oracle (Go runtime deadlock report) does not fire in this build")
        rec_items = []
        for i, g in enumerate(fin):
            case, sem = runfam.build_case("c05-rec-%03d" % i, g)
            rec_items.append((case, sem, g))
        rec = rn.run_cases([c for c, _s, _g in rec_items])
        for (case, sem, g) in rec_items:
            o = rec.get(case["id"], {})
            if "result" not in o:
                continue
            k_total = len(o["result"].get("events") or [])
            ks = list(range(1, k_total + 1))
            if check.quick() and len(ks) > 14:
                ks = sorted(random.Random(derive_seed(check.seed, case["id"])).sample(ks, 14))
            for k in ks:
                c2, s2 = runfam.build_case("c05-%05d" % idx, g, triggers=[{"seq": k, "action": "cancel:0"}])
                idx += 1
                g2 = dict(g, shape=g["shape"] + "/cancel@%d" % k, cancel=("seq", k))
                items.append((c2, s2, g2))
        for i in range(check.pick(3 * len(cancelfam.NEVER_ENDING), 6 * len(cancelfam.NEVER_ENDING))):
            rng = random.Random(derive_seed(check.seed, "c05-never", i))
            prog, scripts, name = cancelfam.NEVER_ENDING[i % len(cancelfam.NEVER_ENDING)](rng)
            v = (i // len(cancelfam.NEVER_ENDING)) % 3
            if v:
                # deployments that take a while to close: the run must not return before they are closed
                scripts, name = cancelfam.slow_close(scripts, only_never_ending=v == 2), name + "/slow-close" + ("-of-never-ending" if v == 2 else "")
            inp = cancelfam.base_input(rng)
            evs, _sem = cancelfam.certain_events(prog, scripts, inp)
            if len(evs) > check.pick(10, 30):
                evs = sorted(random.Random(derive_seed(check.seed, name, i)).sample(evs, check.pick(10, 30)))
            for (kind, src, nth) in evs:
                g = {"program": prog, "scripts": scripts, "input": inp, "shape": "%s/cancel@%s:%s#%d" % (name, kind, src, nth), "cancel": (kind, src, nth)}
                c2, s2 = runfam.build_case("c05-%05d" % idx, g, triggers=[{"kind": kind, "src": src, "nth": nth, "action": "cancel:0"}])
                idx += 1
                items.append((c2, s2, g))

        # a running step is stopped by its stop condition and closed by force by its own provider (it ignores the cancel
        # signal or has no handler for it); its crash report completes an output, so the run ends while that step's
        # deployment - slow to close - is still being closed
        from .c04 import stop_while_running
        for j in range(check.pick(16, 80)):
            g, trig = stop_while_running(check, 5000 + j)
            rng = random.Random(derive_seed(check.seed, "c05-stopped", j))
            if rng.random() < 0.5:
                g["program"].step("X").schema = "nocancel"
                g["scripts"]["X"]["schema"] = "nocancel"
                g["shape"] += "+nohandler"
            g["scripts"]["X"]["deploys"] = [{}, {"close_delay_ms": rng.choice([20, 40])}]
            g["shape"] += "/slow-close"
            g["fault"] = ("stopped-while-running", g["shape"], "")
            c2, s2 = runfam.build_case("c05-%05d" % idx, g, triggers=trig)
            idx += 1
            items.append((c2, s2, g))

        # input that does not satisfy the input schema: the run is refused, and nothing may be left behind by the refusal
        for j in range(check.pick(30, 200)):
            rng = random.Random(derive_seed(check.seed, "c05-badinput", j))
            sh = rng.choice(cancelfam.FINISHING)
            prog, scripts, name = cancelfam.prog_finishing(rng, sh)
            inp = cancelfam.base_input(rng)
            how = rng.choice(["missing-required", "wrong-type", "not-an-object", "null", "unknown-field"])
            if how == "missing-required":
                inp.pop("tag", None)
            elif how == "wrong-type":
                inp["n"] = "not a number"
            elif how == "not-an-object":
                inp = ["tag"]
            elif how == "null":
                inp = None
            else:
                inp["no_such_field"] = 1
            g = {"program": prog, "scripts": scripts, "input": inp, "shape": "%s/invalid-input:%s" % (name, how), "fault": ("invalid-input", how, ""), "invalid_input": True}
            case = {"id": "c05-%05d" % idx, "files": prog.files(), "scripts": scripts, "runs": [{"input": inp}]}
            idx += 1
            items.append((case, None, g))

        # goroutine-start and hand-over points delayed: a run may end while a step goroutine has not even begun
        starts = [p for p in rn.points if ":go#" in p or ".go:entry#" in p or ":wgadd#" in p or ":wgdone#" in p]
        for j in range(check.pick(60, 600)):
            rng = random.Random(derive_seed(check.seed, "c05-start", j))
            sh = rng.choice(["foreach", "foreach_after", "chain", "diamond", "enabled", "fan_in"])
            prog, scripts, name = cancelfam.prog_finishing(rng, sh)
            pt = rng.choice(starts) if starts else None
            if pt is None:
                break
            g = {"program": prog, "scripts": scripts, "input": cancelfam.base_input(rng), "shape": "%s/delay@%s" % (name, pt), "fault": ("delay", pt, "")}
            c2, s2 = runfam.build_case("c05-%05d" % idx, g, plan={"sites": [{"point": pt, "hit": rng.choice([1, 1, 2, 3]), "ms": rng.choice([20, 60])}], "record": True}, plan_scope="execute")
            idx += 1
            items.append((c2, s2, g))

        # a step whose output nobody needs: the run ends on its sibling's result while that step's goroutines are being delayed
        from ..model import Expr, In, Program, Step
        for j, pt in enumerate(starts):
            rng = random.Random(derive_seed(check.seed, "c05-unneeded", j))
            sub = gen.sub_program("sub.yaml", 1)
            extra = Step("loop", "foreach", sub=sub, items=Expr(In("items")), parallelism=rng.choice([1, 2])) if not pt.startswith("pl:") else gen.plugin_step("side", Expr(In("tag")))
            steps = [gen.plugin_step("a", Expr(In("tag"))), extra]
            prog = Program(steps, {"success": {"a": gen.tagref("a")}}, gen.BASE_INPUT)
            for hit in (1, 2):
                g = {"program": prog, "scripts": gen.make_scripts(steps, {}), "input": cancelfam.base_input(rng), "shape": "unneeded-%s/delay@%s#%d" % (extra.kind, pt, hit), "fault": ("delay", pt, hit)}
                c2, s2 = runfam.build_case("c05-%05d" % idx, g, plan={"sites": [{"point": pt, "hit": hit, "ms": 60}], "record": True}, plan_scope="execute")
                idx += 1
                items.append((c2, s2, g))

        # the workflow's output needs no step at all (workflow input only): the run is over as soon as the steps are launched, and
        # every one of them is closed before it returns
        for j in range(check.pick(30, 150)):
            rng = random.Random(derive_seed(check.seed, "c05-nosteps", j))
            k = rng.choice([1, 3, 6])
            steps = [gen.plugin_step("p%d" % q, Expr(In("tag"))) for q in range(k)]
            if j % 4 == 3:
                steps.append(Step("loop", "foreach", sub=gen.sub_program("sub.yaml", 1), items=Expr(In("items"))))
            prog = Program(steps, {"success": {"name": Expr(In("tag"))}}, gen.BASE_INPUT)
            scripts = gen.make_scripts(steps, {})
            if j % 3 == 1:
                for st in steps[:2]:
                    if st.kind == "plugin":
                        scripts[st.src]["deploys"] = [{}, {"delay_ms": rng.choice([10, 30])}]
            g = {"program": prog, "scripts": scripts, "input": cancelfam.base_input(rng), "shape": "output-needs-no-step/%d-steps" % len(steps), "fault": ("output-needs-no-step", k, "")}
            c2, s2 = runfam.build_case("c05-%05d" % idx, g)
            idx += 1
            items.append((c2, s2, g))
        # the same with a step whose shutdown takes longer than any grace period the engine has (an uninterruptible deployment of
        # 5.6 s - and 10.6 s for a cancelled run - still in flight when the result is ready): the run returns once it is over
        for j, (ms, cancel) in enumerate([(5600, False), (5600, False), (10600, True)][:check.pick(2, 3)]):
            rng = random.Random(derive_seed(check.seed, "c05-longshutdown", j))
            side = gen.plugin_step("side", Expr(In("tag")))
            steps = [gen.plugin_step("a", Expr(In("tag"))), side]
            if j == 1:
                steps.append(Step("loop", "foreach", sub=gen.sub_program("sub.yaml", 1), items=Expr(In("items"))))
            prog = Program(steps, {"success": {"a": gen.tagref("a")}}, gen.BASE_INPUT)
            scripts = gen.make_scripts(steps, {})
            scripts["side"]["deploys"] = [{}, {"delay_ms": ms}]
            if cancel:
                scripts["a"]["exec"] = {"outcome": "hang", "on_cancel": "error"}
            g = {"program": prog, "scripts": scripts, "input": cancelfam.base_input(rng), "shape": "unneeded-step-with-%d-ms-deployment%s" % (ms, "/cancelled" if cancel else ""), "fault": ("long-shutdown", ms, cancel)}
            opts = {"triggers": [{"kind": "exec-start", "src": "a", "nth": 1, "action": "cancel:0"}]} if cancel else {}
            if cancel:
                g["cancel"] = ("exec-start", "a", 1)
            c2, s2 = runfam.build_case("c05-%05d" % idx, g, **opts)
            idx += 1
            items.append((c2, s2, g))
        out = rn.run_cases([c for c, _s, _g in items], per_case_timeout=90)
    by_id = {c["id"]: (c, s, g) for c, s, g in items}
    for cid in sorted(out):
        o = out[cid]
        case, sem, g = by_id[cid]
        check.count()
        if "death" in o:
            d = o["death"]
            check.inconclusive_case(cid, "child died (%s %s): leak accounting impossible; shape %s" % (d["kind"], d["key"], g["shape"]))
            continue
        res = o["result"]
        if g.get("cancel"):
            stats["cancel_points"] += 1
        if g.get("fault"):
            stats["faults"] += 1
        if res.get("prepare_err"):
            stats["prepare_rejections"] += 1
            if not (g.get("fault") and g["fault"][0] == "probe"):
                stats.setdefault("unexpected_rejections", []).append((g["shape"], res["prepare_err"][:200]))
        if g.get("invalid_input"):
            err = ((res.get("runs") or [{}])[0].get("err") or "")
            stats["invalid_inputs_refused"] = stats.get("invalid_inputs_refused", 0) + (1 if "invalid workflow input" in err else 0)
            stats["invalid_inputs"] = stats.get("invalid_inputs", 0) + 1
        if res.get("census_at_return"):
            stats["census_nonempty_at_return"] += 1
        stats["max_settle_ms"] = max(stats["max_settle_ms"], res.get("settle_ms") or 0)
        check.nontrivial(g["shape"].split("/cancel@")[0] + "|" + str(g.get("cancel") or g.get("fault") or sorted(g.get("outcome", {}).items())))
        for v in mon.monitor_leaks(res):
            check.report(v.key, "case %s (%s): %s" % (cid, g["shape"], v.what), {"case": case, "violation": v.to_json(), "result": runfam.strip(res)})
        if len(check.samples) < 4 and (g.get("cancel") or g.get("fault")):
            check.sample({"case": cid, "shape": g["shape"], "deploy_ok": len([e for e in res.get("events") or [] if e["kind"] == "deploy-ok"]),
                          "conn_close": len([e for e in res.get("events") or [] if e["kind"] == "conn-close"]), "census_at_return": res.get("census_at_return"),
                          "leak": res.get("leak"), "settle_ms": res.get("settle_ms")})
    check.extra.update(stats)
    if stats["cancel_points"] == 0 or stats["faults"] == 0:
        check.fail_broken("no cancellation points or no faults were exercised")
