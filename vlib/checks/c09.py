"""C09 - the result does not depend on how fast goroutines are scheduled."""
import json
import random

from .. import gen, harness, mon, ref, runfam
from ..core import Check, derive_seed
from ..model import Expr, In, Ref, Not, Lit, Bin, Program, Step, OneOf, Opt, OrDisabled


def single_result_shapes():
    out = {}

    def mk(name, steps, outs, outcome=None, inp=None, scripts_extra=None):
        prog = Program(steps, outs, gen.BASE_INPUT)
        out[name] = {"program": prog, "scripts": gen.make_scripts(steps, outcome or {}, scripts_extra), "input": inp or {"tag": "T1", "n": 5, "flag": True, "items": [{"tag": "i0"}, {"tag": "i1"}, {"tag": "i2"}]},
                     "shape": name, "outcome": outcome or {}}

    rng = random.Random(7)
    mk("one_step", [gen.plugin_step("a", Expr(In("tag")))], {"success": {"a": gen.tagref("a")}})
    s, o = gen.shape_chain(rng, 3)
    mk("chain3", s, o)
    s, o = gen.shape_diamond(rng)
    mk("diamond", s, o)
    mk("enabled_true", [gen.plugin_step("a", Expr(In("tag"))), gen.plugin_step("b", gen.tagref("a"), enabled=Expr(In("flag")))], {"success": {"b": gen.tagref("b")}})
    mk("disabled", [gen.plugin_step("a", Expr(In("tag"))), gen.plugin_step("b", gen.tagref("a"), enabled=Expr(Not(In("flag"))))],
       {"success": {"b": gen.tagref("b")}, "skipped": {"m": Expr(Ref("b", "disabled", "output", "message")), "a": gen.tagref("a")}})
    mk("wait_for", [gen.plugin_step("a", Expr(In("tag"))), gen.plugin_step("b", Expr(In("tag")), wait_for=Expr(Ref("a", "outputs", "success")))], {"success": {"a": gen.tagref("a"), "b": gen.tagref("b")}})
    s, o = gen.shape_deploy_expr(rng)
    mk("deploy_expr", s, o)
    s, o = gen.shape_foreach(rng, 1, 2)
    mk("foreach", s, o)
    s, o = gen.shape_foreach_after(rng)
    mk("foreach_plugin", s, o)
    mk("oneof", [gen.plugin_step("a", Expr(In("tag")), enabled=Expr(In("flag")))],
       {"success": {"r": OneOf("kind", {"ran": Expr(Ref("a", "outputs", "success")), "skipped": Expr(Ref("a", "disabled", "output"))})}})
    mk("wait_optional", [gen.plugin_step("a", Expr(In("tag"))), gen.plugin_step("b", Expr(In("tag")), extra_input={"a": {"x": Opt(Ref("a", "outputs", "success", "tag"), True)}})],
       {"success": {"b": Expr(Ref("b", "outputs", "success"))}})
    mk("error_path", [gen.plugin_step("a", Expr(In("tag"))), gen.plugin_step("b", gen.tagref("a"))],
       {"success": {"b": gen.tagref("b")}, "failed": {"why": Expr(Ref("a", "outputs", "error", "reason"))}}, outcome={"a": "error"})
    mk("crash_path", [gen.plugin_step("a", Expr(In("tag"))), gen.plugin_step("b", gen.tagref("a"))],
       {"success": {"b": gen.tagref("b")}, "crashed": {"why": Expr(Ref("a", "crashed", "error", "output"))}}, outcome={"a": "crash"})
    # a step stopped before its input can exist (the stop source also gates the step that feeds it): always closed, never run
    sx = gen.plugin_step("X", gen.tagref("S2"), stop_if=Expr(Ref("S", "outputs", "success", "tag")))
    sx.stop_mode = "before"
    mk("stopped_before_start", [gen.plugin_step("S", Expr(In("tag"))), gen.plugin_step("S2", gen.tagref("S")), sx],
       {"success": {"x": gen.tagref("X")}, "stopped": {"r": Expr(Ref("X", "closed", "result")), "s2": gen.tagref("S2")}})
    # many loop items failing at the same moment
    sub = gen.sub_program("sub.yaml", 1)
    mk("loop_all_items_fail", [Step("loop", "foreach", sub=sub, items=Expr(In("items")), parallelism=16)],
       {"success": {"d": Expr(Ref("loop", "outputs", "success", "data"))}, "failed": {"e": Expr(Ref("loop", "failed", "error", "errors"))}},
       inp={"tag": "T1", "items": [{"tag": "i%d" % k} for k in range(24)]}, scripts_extra={"sub_w0": {"exec": {"outcome": "crash"}}})
    # a loop over the result of an earlier step whose items take a while (their deployment is slow)
    sub2 = gen.sub_program("sub2.yaml", 1)
    mk("loop_after_step_slow_items", [gen.plugin_step("a", Expr(In("tag"))), Step("loop", "foreach", sub=sub2, items=[{"tag": gen.tagref("a")}, {"tag": Expr(In("tag"))}, {"tag": "k"}], parallelism=2)],
       {"success": {"d": Expr(Ref("loop", "outputs", "success", "data"))}}, scripts_extra={"sub2_w0": {"deploys": [{}, {"delay_ms": 45}]}})
    # expressions over two steps, the first of which is already connected to the consuming node
    for vseed in (11, 12, 13, 14):
        ms, mo = gen.shape_multiref(random.Random(vseed))
        mk("multiref%d" % vseed, ms, mo)
    # the result is complete while several loops still wait to be enabled by a slower step: the loops are closed while that
    # step's events keep the run loop busy
    lsub = gen.sub_program("sub3.yaml", 1)
    mk("loops_still_waiting_to_be_enabled", [gen.plugin_step("q", Expr(In("tag"))), gen.plugin_step("g", gen.tagref("q"), extra_input={"b": True})] +
       [Step("L%d" % k, "foreach", sub=lsub, items=[{"tag": "i0"}], enabled=Expr(Ref("g", "outputs", "success", "b"))) for k in range(4)],
       {"success": {"q": gen.tagref("q")}}, scripts_extra={"g": {"deploys": [{}, {"delay_ms": 15}]}})
    # an expression over the result of an early stage of one step (its enabling result) and the final result of another, slower
    # or faster, step; the first step's later stages complete in between
    mk("earlier_stage_result_with_other_step", [gen.plugin_step("A", Expr(In("tag"))), gen.plugin_step("B", Expr(In("tag"))),
                                                gen.plugin_step("C", gen.tagref("B"), extra_input={"a": {"e": Expr(Ref("A", "enabling", "resolved", "enabled")), "s": Expr(Ref("A", "starting", "started"))}})],
       {"success": {"c": Expr(Ref("C", "outputs", "success")), "e": Expr(Ref("A", "enabling", "resolved")), "b": gen.tagref("B")}}, scripts_extra={"B": {"deploys": [{}, {"delay_ms": 30}]}})
    # a loop with fewer slots than items in which one item fails (whichever item gets a slot first, the others must still run)
    sub4 = gen.sub_program("sub4.yaml", 1)
    mk("loop_one_item_fails_few_slots", [Step("loop", "foreach", sub=sub4, items=Expr(In("items")), parallelism=1)],
       {"success": {"d": Expr(Ref("loop", "outputs", "success", "data"))}, "failed": {"e": Expr(Ref("loop", "failed", "error"))}},
       inp={"tag": "T1", "items": [{"tag": "i%d" % k} for k in range(4)]}, scripts_extra={"sub4_w0": {"exec_by_tag": {"i2": {"outcome": "crash"}}}})
    # a loop whose items are constants (it is handed its items while it announces the end of its enabling stage) and whose item
    # runs take a while, with no other step in the workflow
    sub5 = gen.sub_program("sub5.yaml", 1)
    mk("loop_constant_items_slow_sub", [Step("loop", "foreach", sub=sub5, items=[{"tag": "k0"}, {"tag": "k1"}], parallelism=1)],
       {"success": {"d": Expr(Ref("loop", "outputs", "success", "data"))}}, scripts_extra={"sub5_w0": {"deploys": [{}, {"delay_ms": 70}]}})
    mk("no_output_possible", [gen.plugin_step("a", Expr(In("tag"))), gen.plugin_step("b", gen.tagref("a"))],
       {"success": {"b": gen.tagref("b")}}, outcome={"a": "error"})
    return out


def result_class(run):
    if run.get("out_id"):
        if "this is the fallback system" in json.dumps(run.get("data")):
            # the run of a loop item was ended by the stuck-workflow detector and the loop reports that item as failed: the same
            # event as a top-level ErrNoMorePossibleSteps, one level down
            return "ErrNoMorePossibleSteps"
        return "output:" + run["out_id"]
    return run.get("err_type") or "error"


def verdict(sem, run):
    """None if the run result equals the reference's single result, else a description."""
    exp = sem.result()
    if exp["avail"]:
        (oid, pat), = list(exp["avail"].items())[:1]
        if len(exp["avail"]) != 1:
            return None
        if run.get("err"):
            return "run failed with %s (%s); reference result: output %r" % (run.get("err_type"), run["err"][:120], oid)
        if run.get("out_id") != oid:
            return "returned %r, reference result %r" % (run.get("out_id"), oid)
        m = ref.match(pat, ref.denum(run.get("data")))
        if m:
            return "data differs: " + m
        return None
    if not run.get("err"):
        return "returned output %r although nothing is producible" % run.get("out_id")
    if run.get("err_type") != "ErrNoMorePossibleOutputs":
        # the fallback "no more possible steps" is also an error; the property only fixes 'error'
        return None
    return None


# The one window recorded as a known finding: a step has marked itself finished but its completion has not yet
# been processed by the run loop (plugin/foreach completeStep after the state update; the completion callback
# before it obtains the run lock).
WINDOW = ("pl:runningStep.completeStep:unlock#1", "pl:runningStep.completeStep:handler#1", "wf:loopState.onStageComplete:lock#1",
          "fe:runningStep.completeStep:unlock#1", "fe:runningStep.completeStep:handler#1", "fe:runningStep.processInput:handler#3")
WINDOW_KEY = "sched@window:finished-but-completion-not-yet-processed"


def plan_key(res, rclass, single_point=None):
    """Key of a wrong result under a delay plan: the known window if the plan spent >= 25 ms inside it, else the sites."""
    sites = []
    for d in res.get("delayed") or []:
        point, rest = d.rsplit("@", 1)
        sites.append((point, int(rest.split("=")[1])))
    in_window = sum(ms for p, ms in sites if p in WINDOW and ms > 0)
    if in_window >= 25:
        return "%s->%s" % (WINDOW_KEY, rclass)
    if single_point:
        return "sched@%s->%s" % (single_point, rclass)
    return "sched@multi[%s]->%s" % (",".join(sorted(set(p for p, ms in sites if ms >= 5))), rclass)


def run(check):
    check.rule = ("21 single-result programs (one step, chain, diamond, enabled, disabled, wait_for, deploy expression, foreach, foreach+plugin, oneof, "
                  "wait-optional, error path, crash path, nothing producible, step stopped before it can start, loop whose items all fail together, loop over an "
                  "earlier step's result with slow items); a record run lists the schedule points (spliced before lock/unlock, channel "
                  "send/receive, select, wait-group, go statements, handler calls of workflow.go and both providers) each program hits; single-site sweep: one "
                  "sleep of D ms at the h-th hit of point P (quick: every hit point x first hit x 35 ms; thorough: x {first, second, last} x {35,120} ms) plus "
                  "pairs of 35 ms delays at neighbouring points of one function (4 programs) plus random multi-site plans (decision = hash(seed, point, hit)); oracle: result equals the reference result; non-trivial/distinct = "
                  "(program, point, hit, delay) actually executed and hit")
    check.assumptions = ["delays at schedule points are schedules the Go scheduler can produce (goroutines are preemptible everywhere)",
                         "35 ms is chosen against the engine's 3 x 10 ms fallback detector window"]
    shapes = single_result_shapes()
    names = sorted(shapes)
    stats = {"points_total": 0, "points_hit": 0, "single_site_plans": 0, "random_plans": 0, "plans_that_delayed": 0, "wrong_results": 0}
    with harness.Runner() as rn:
        if not rn.hang_oracle_works():
            check.fail_broken("the hang oracle (Go runtime deadlock report) does not fire in this build")
        stats["points_total"] = len(rn.points)
        rec_items = []
        for n in names:
            case, sem = runfam.build_case("c09-rec-" + n, shapes[n], plan={"record": True}, plan_scope="execute")
            rec_items.append((case, sem, shapes[n]))
        rec = rn.run_cases([c for c, _s, _g in rec_items])
        hit_union = set()
        items = []
        idx = 0
        for case, sem, g in rec_items:
            o = rec.get(case["id"], {})
            if "result" not in o:
                d = o.get("death", {})
                check.count()
                if d.get("kind") == "deadlock":
                    check.report("sched@none->hang", "undelayed record run of %s never returned: %s" % (g["shape"], d.get("key")), {"case": case, "detail": d.get("detail", "")[:3000]})
                elif d.get("kind") in ("panic", "fatal"):
                    check.report("sched@none->crash:" + str(d.get("key"))[:80], "undelayed record run of %s: process died: %s" % (g["shape"], d.get("message", "")[:200]), {"case": case, "detail": d.get("detail", "")[:3000]})
                else:
                    check.inconclusive_case(case["id"], "record run died: %s" % d.get("key"))
                continue
            v = verdict(sem, o["result"]["runs"][0])
            check.count()
            if v:
                check.report("sched@none->" + result_class(o["result"]["runs"][0]), "undelayed record run of %s: %s" % (g["shape"], v), {"case": case, "result": runfam.strip(o["result"])})
            hits = o["result"].get("hits") or {}
            hit_union.update(hits)
            for point in sorted(hits):
                cnt = hits[point]
                hs = [1] if check.quick() else sorted(set([1, min(2, cnt), cnt]))
                ds = [35] if check.quick() else [35, 120]
                # where the outcome of a delay is decided by a random choice of the runtime (a select with two ready cases: the stop
                # and the input of a step that is stopped before it starts), the same plan is run several times
                reps = 4 if (g["shape"] == "stopped_before_start" and point.startswith("pl:runningStep.startStage")) else 1
                for h in hs:
                    for d in ds:
                        for _rep in range(reps):
                            c2, s2 = runfam.build_case("c09-%05d" % idx, g, plan={"sites": [{"point": point, "hit": h, "ms": d}], "record": True}, plan_scope="execute")
                            idx += 1
                            items.append((c2, s2, dict(g, site=(point, h, d))))
            # two delays at neighbouring schedule points of one function (a window opened by the first, held by the second)
            if g["shape"] in ("one_step", "enabled_true", "wait_for", "deploy_expr"):
                by_fn = {}
                for point in sorted(hits):
                    by_fn.setdefault(point.rsplit(":", 1)[0], []).append(point)
                for fn, pts in sorted(by_fn.items()):
                    for a_i in range(len(pts)):
                        for b_i in range(a_i + 1, min(a_i + 3, len(pts))):
                            sites = [{"point": pts[a_i], "hit": 1, "ms": 35}, {"point": pts[b_i], "hit": 1, "ms": 35}]
                            c2, s2 = runfam.build_case("c09-%05d" % idx, g, plan={"sites": sites, "record": True}, plan_scope="execute")
                            idx += 1
                            items.append((c2, s2, dict(g, site=("pair", pts[a_i], pts[b_i]))))
            nr = check.pick(8, 150)
            for r in range(nr):
                rng = random.Random(derive_seed(check.seed, "c09-rand", g["shape"], r))
                plan = {"seed": rng.randrange(1 << 40), "prob": rng.choice([30, 80, 200]), "choices": [-1, 1, 5, 35, 80], "max_acts": rng.choice([3, 8, 20]), "record": True}
                c2, s2 = runfam.build_case("c09-%05d" % idx, g, plan=plan, plan_scope="execute")
                idx += 1
                items.append((c2, s2, dict(g, site=("multi", plan["seed"], plan["prob"]))))
        stats["points_hit"] = len(hit_union)
        by_id = {c["id"]: (c, s, g) for c, s, g in items}
        out = rn.run_cases([c for c, _s, _g in items], per_case_timeout=90)
    wrong = {}
    for cid in sorted(out):
        o = out[cid]
        case, sem, g = by_id[cid]
        check.count()
        site = g["site"]
        multi = site[0] in ("multi", "pair")
        stats["random_plans" if multi else "single_site_plans"] += 1
        if "death" in o:
            d = o["death"]
            if d["kind"] == "deadlock":
                key = "sched@%s->hang" % ("multi" if multi else site[0])
                check.report(key, "run hung under delay plan %s in %s: %s" % (site, g["shape"], d["key"]), {"case": case, "detail": d.get("detail", "")[:3000]})
            elif d["kind"] in ("panic", "fatal"):
                key = "sched@%s->crash:%s" % ("multi" if multi else site[0], d["key"])
                check.report(key, "process died under delay plan %s in %s: %s" % (site, g["shape"], d.get("message", "")[:200]), {"case": case, "detail": d.get("detail", "")[:3000]})
            else:
                check.inconclusive_case(cid, "died: %s %s" % (d["kind"], d["key"]))
            continue
        res = o["result"]
        if res.get("delayed"):
            stats["plans_that_delayed"] += 1
            check.nontrivial("%s|%s" % (g["shape"], site))
        v = verdict(sem, res["runs"][0])
        if v:
            stats["wrong_results"] += 1
            key = plan_key(res, result_class(res["runs"][0]), None if multi else site[0])
            wrong.setdefault(key, []).append(g["shape"])
            check.report(key, "%s under delay plan %s: %s" % (g["shape"], site, v), {"case": case, "result": runfam.strip(res)})
        elif len(check.samples) < 4 and res.get("delayed"):
            check.sample({"case": cid, "program": g["shape"], "plan": case["plan"], "delayed_at": res.get("delayed")[:5], "result": result_class(res["runs"][0])})
    check.extra.update(stats)
    check.extra["wrong_result_keys"] = {k: sorted(set(v)) for k, v in wrong.items()}
    if stats["plans_that_delayed"] < 50:
        check.fail_broken("only %d plans actually injected a delay" % stats["plans_that_delayed"])
