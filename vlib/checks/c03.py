"""C03 - the run result is the one the workflow's declarative meaning prescribes."""
import itertools
import random

from .. import gen, harness, mon, ref, runfam
from ..core import Check, derive_seed
from ..model import Expr, In, Ref, Program, Opt

ALPHABET = ["success", "error", "alt", "crash", "deployfail"]


def all_path_outputs(steps, outs):
    """Adds an output for every failure path of every plugin step (so each outcome vector has a producible output or none)."""
    for s in steps:
        if s.kind != "plugin":
            continue
        outs["err_" + s.name] = {"why": Expr(Ref(s.name, "outputs", "error", "reason"))}
        outs["alt_" + s.name] = {"t": Expr(Ref(s.name, "outputs", "alt", "tag"))}
    return outs


def shape_stop_if_never_true(rng):
    """The worker would be stopped by the checker's error output; with any other outcome of the checker that condition can
    no longer occur, and whatever the worker then does (also a failed deployment) must still be reported."""
    c = gen.plugin_step("c", Expr(In("tag")))
    w = gen.plugin_step("w", Expr(In("tag")), stop_if=Expr(Ref("c", "outputs", "error")))
    outs = {"success": {"w": gen.tagref("w"), "c": gen.tagref("c")}, "undeployed": {"why": Expr(Ref("w", "deploy_failed", "error", "error"))},
            "crashed": {"why": Expr(Ref("w", "crashed", "error", "output"))}}
    return [c, w], outs


def loop_after_step_case(rng):
    """A loop over the result of an earlier step whose items take a while (slow deployment of the sub-workflow's step)."""
    from ..model import Step
    nn = rng.choice([2, 3])
    sub = gen.sub_program("sub.yaml", 1)
    how = rng.choice(["items", "wait_for"])
    fe = Step("loop", "foreach", sub=sub, parallelism=rng.choice([1, 2]),
              items=[{"tag": gen.tagref("a")}] + [{"tag": "k%d" % j} for j in range(nn - 1)] if how == "items" else [{"tag": "k%d" % j} for j in range(nn)])
    if how == "wait_for":
        fe.fields["wait_for"] = Expr(Ref("a", "outputs", "success"))
    steps = [gen.plugin_step("a", Expr(In("tag"))), fe]
    rng.shuffle(steps)
    prog = Program(steps, {"success": {"d": Expr(Ref("loop", "outputs", "success", "data"))}, "failed": {"e": Expr(Ref("loop", "failed", "error"))}}, gen.BASE_INPUT)
    scripts = gen.make_scripts(steps, {})
    scripts["sub_w0"]["deploys"] = [{}, {"delay_ms": rng.choice([45, 80])}]
    return {"program": prog, "scripts": scripts, "input": {"tag": "T1"}, "shape": "loop-after-step-slow-items/%s" % how, "outcome": {}}


def enumerated(check):
    """Outcome vectors of small shapes: exhaustive in the thorough tier, sampled in the quick tier."""
    shapes = {
        "chain2": lambda rng: gen.shape_chain(rng, 2),
        "chain3": lambda rng: gen.shape_chain(rng, 3),
        "diamond": gen.shape_diamond,
        "fan_in3": lambda rng: gen.shape_fan_in(rng, 3),
        "wait_for": gen.shape_wait_for,
        "deploy_expr": gen.shape_deploy_expr,
        "multiref": gen.shape_multiref,
        "stop_if_never_true": shape_stop_if_never_true,
    }
    out = []
    for name, fn in sorted(shapes.items()):
        rng0 = random.Random(derive_seed(check.seed, "c03-shape", name))
        steps0, _ = fn(rng0)
        names = [s.name for s in steps0 if s.kind == "plugin"]
        vectors = list(itertools.product(ALPHABET, repeat=len(names)))
        if check.quick():
            random.Random(derive_seed(check.seed, "c03-vec", name)).shuffle(vectors)
            vectors = vectors[:25]
        for vi, vec in enumerate(vectors):
            rng = random.Random(derive_seed(check.seed, "c03-shape", name))  # same shape every time
            steps, outs = fn(rng)
            mode = vi % 3
            if mode == 0:
                all_path_outputs(steps, outs)
            outcome = {n: o for n, o in zip(names, vec) if o != "success"}
            if mode == 1:
                gen.add_error_outputs(random.Random(derive_seed(check.seed, name, vi)), steps, outs, outcome)
            prog = Program(steps, outs, gen.BASE_INPUT)
            out.append({"program": prog, "scripts": gen.make_scripts(steps, outcome), "input": gen.base_input(rng), "shape": name, "outcome": outcome})
    return out


def run(check):
    check.rule = ("multi-output programs (success path plus error-output / alt / crashed / deploy_failed / disabled paths); outcome vectors over "
                  "{success,error,alt,crash,deployfail} enumerated for 6 small shapes (exhaustive in thorough, 25 per shape in quick) plus generated "
                  "programs of all shapes, some with an output field / wait-optional field / step input that cannot be evaluated over the produced values (such an output is "
                  "not producible), optional / one-of / or-disabled members in outputs, an engine configured to log outputs to a slow target, workflow inputs of every type flowing into outputs and step inputs, programs in which only the stuck-workflow check can tell that "
                  "nothing is producible; completion order varied by random delay plans; oracle: returned (id,data,err) must lie in the reference's "
                  "allowed set; non-trivial = at least one step does not succeed or >=2 outputs declared; distinct = (shape, outcome vector, returned id)")
    check.assumptions = ["reference semantics vlib/ref.py (Appendix B of DESIGN.md)", "error message texts are not compared"]
    gs = enumerated(check)
    n = check.pick(200, 3000)
    for i in range(n):
        g = runfam.gen_terminating(check.seed, "c03-%d" % i, p_fail=0.35, outcomes=["error", "alt", "crash", "drop", "deployfail"])
        if g is not None:
            gs.append(g)
    for i in range(check.pick(16, 100)):
        gs.append(loop_after_step_case(random.Random(derive_seed(check.seed, "c03-loopafter", i))))
    # run-time evaluation faults: an output (or a wait-optional field of it, or the input of a step) whose expression
    # cannot be evaluated over the produced values is not producible
    nf = check.pick(80, 1200)
    for i in range(nf):
        rng = random.Random(derive_seed(check.seed, "c03-fault", i))
        g = runfam.gen_terminating(check.seed, "c03-f%d" % i, p_fail=0.2, outcomes=["error", "alt", "crash", "deployfail"],
                                   shape=rng.choice(["chain", "diamond", "fan_in", "wait_for", "deploy_expr", "multiref"]))
        if g is None:
            continue
        prog = g["program"]
        what = gen.add_fault(rng, prog.steps, prog.outputs, optional=rng.choice(["", "", "wait"]))
        g["scripts"] = gen.make_scripts(prog.steps, g["outcome"])
        g["shape"] = "%s/evalfault(%s)" % (g["shape"], what)
        gs.append(g)
    # values computed from what steps returned: arithmetic, comparison and conversion over integers and floats of step outputs
    # (also as the input of a later step), with inputs of both signs
    from ..model import Bin, Call, Lit, In
    for i in range(check.pick(60, 600)):
        rng = random.Random(derive_seed(check.seed, "c03-arith", i))
        nsteps = rng.choice([2, 3])
        steps, outs = gen.shape_chain(rng, nsteps)
        steps[0].fields["input"]["f"] = rng.choice([2.5, -0.75, 1e3])
        n0, n1 = Ref("s0", "outputs", "success", "n"), Ref("s1", "outputs", "success", "n")
        exprs = {"plus": Bin("+", n0, Lit(1)), "minus": Bin("-", n1, Lit(100)), "times": Bin("*", n0, n1), "greater": Bin(">", n0, Lit(2)), "equal": Bin("==", n1, Bin("+", n0, Lit(1))),
                 "text": Call("intToString", n0), "float": Bin("+", Ref("s0", "outputs", "success", "f"), Lit(1.5)), "tofloat": Call("intToFloat", n1)}
        for k in rng.sample(sorted(exprs), rng.choice([1, 2, 4])):
            outs["success"][k] = Expr(exprs[k])
        if rng.random() < 0.5:
            # the next step counts on from a computed value
            steps[-1].fields["input"]["n"] = Expr(Bin("+", Ref("s%d" % (nsteps - 2), "outputs", "success", "n"), Lit(10)))
        prog = Program(steps, outs, gen.BASE_INPUT)
        inp = gen.base_input(rng)
        inp["n"] = rng.choice([0, 1, 5, 41, -1, -7, 2 ** 40, -(2 ** 40)])
        gs.append({"program": prog, "scripts": gen.make_scripts(steps, {}), "input": inp, "shape": "chain%d/computed-values" % nsteps, "outcome": {}})
    items = []
    for i, g in enumerate(gs):
        rng = random.Random(derive_seed(check.seed, "c03-opt", i))
        opts = {}
        if rng.random() < 0.3:
            opts["plan"] = {"seed": rng.randrange(1 << 30), "prob": 40, "choices": [-1, 1, 3, 8], "max_acts": 12, "record": True}
            opts["plan_scope"] = "execute"
        case, sem = runfam.build_case("c03-%05d" % i, g, **opts)
        items.append((case, sem, g))
    ids = {}

    def on_result(cid, case, sem, g, res, vs):
        run = (res.get("runs") or [{}])[0]
        exp = sem.result()
        if g["outcome"] or len(sem.p.outputs) > 1:
            check.nontrivial("%s|%s|%s" % (g["shape"], sorted(g["outcome"].items()), run.get("out_id") or run.get("err_type")))
        k = "output" if run.get("out_id") else "error"
        ids[k] = ids.get(k, 0) + 1
        if len(exp["avail"]) > 1:
            ids["several_producible"] = ids.get("several_producible", 0) + 1
        check.sample({"case": cid, "shape": g["shape"], "outcome": g["outcome"], "producible": sorted(exp["avail"]), "returned": run.get("out_id"), "err_type": run.get("err_type")})

    # optional, one-of and or-disabled members in the outputs (the programs of the tag check, read through the result rules)
    from . import c15
    tagged = [c15.build(j, check) for j in range(check.pick(80, 600))] + c15.matrix_cases()
    for j, (g, trig) in enumerate(tagged):
        if "direct" not in g["program"].outputs:
            continue
        inp0 = ref.normalise_input(g["program"].input_schema, g["input"])
        r0 = ref.RefSem(g["program"], g["scripts"], inp0).result()
        if not r0["avail"] and r0["pending"]:
            continue
        opts2 = {"triggers": trig} if trig else {}
        if g.get("logged_outputs"):
            opts2["logged_outputs"] = g["logged_outputs"]
        case, sem = runfam.build_case("c03-tg%04d" % j, g, **opts2)
        if mon.late_stage_waits(sem):
            continue  # the known finding about members waiting for stages of steps that can never start (see C15)
        items.append((case, sem, g))
    # one-of members whose option names contain dots, dashes, spaces or look like paths (the option's name is also part of the
    # name of a node of the dependency graph); only one alternative is ever produced, so the result is fixed
    from ..model import OneOf
    for j, (na, nb) in enumerate([("v1.0", "v2.0"), ("a.b.c", "a.b"), ("x", "x.y"), ("opt-1", "opt 2"), ("0", "1.0"), ("x.b", "b"), ("b", "x.b"), ("a.b", "c.b"), ("outputs.success", "steps.A"), ("A", "a")] * check.pick(1, 3)):
        rng = random.Random(derive_seed(check.seed, "c03-optnames", j))
        A, B = gen.plugin_step("A", Expr(In("tag"))), gen.plugin_step("B", Expr(In("tag")))
        first = j % 2 == 0
        t = OneOf("which", {na: Expr(Ref("A", "outputs", "success")), nb: Expr(Ref("B", "outputs", "success"))})
        steps = [A, B]
        where = ["output", "step-input", "nested-output"][j % 3]
        if where == "output":
            outs = {"success": {"v": t}}
        elif where == "nested-output":
            outs = {"success": {"m": {"l": [{"v": t}]}}}
        else:
            steps.append(gen.plugin_step("C", Expr(In("tag")), extra_input={"a": {"v": t}}))
            outs = {"success": {"c": Expr(Ref("C", "outputs", "success"))}}
        rng.shuffle(steps)
        outcome = {"B": "error"} if first else {"A": "crash"}
        g = {"program": Program(steps, outs, gen.BASE_INPUT), "scripts": gen.make_scripts(steps, outcome), "input": gen.base_input(rng), "shape": "one-of-option-names/%s|%s/%s" % (na, nb, where), "outcome": outcome}
        case, sem = runfam.build_case("c03-on%04d" % j, g)
        items.append((case, sem, g))
    # lists that start with a constant and go on with expressions (in outputs and step inputs), the steps they refer to being
    # referred to nowhere else and slower than everything else the node needs
    for j in range(check.pick(24, 160)):
        rng = random.Random(derive_seed(check.seed, "c03-constlist", j))
        a = gen.plugin_step("a", Expr(In("tag")))
        x = gen.plugin_step("x", Expr(In("tag")))
        y = gen.plugin_step("y", Expr(In("tag")))
        steps = [a, x, y]
        lst = rng.choice([["a constant", gen.tagref("x")], ["k", "k2", gen.tagref("x"), gen.tagref("y")], [gen.tagref("a"), "mid", gen.tagref("x")], ["first", Opt(Ref("x", "outputs", "success", "tag"), True)]])
        where = rng.choice(["output", "output", "step-input", "nested-output"])
        if where == "output":
            outs = {"success": {"a": gen.tagref("a"), "l": lst}}
        elif where == "nested-output":
            outs = {"success": {"a": gen.tagref("a"), "m": {"inner": [{"l": lst}]}}}
        else:
            steps.append(gen.plugin_step("c", gen.tagref("a"), extra_input={"l": lst}))
            outs = {"success": {"c": Expr(Ref("c", "outputs", "success"))}}
        rng.shuffle(steps)
        # (a failing source is only combined with the plain lists: what an absent optional *list element* means is not defined -
        # the engine leaves a nil in the list and the run ends with a `bug:` error; noted in DESIGN 14, not claimed)
        outcome = {"x": "error"} if j % 5 == 4 and not any(isinstance(e, Opt) for e in lst) else {}
        scripts = gen.make_scripts(steps, outcome)
        for slow in ("x", "y"):
            scripts[slow]["deploys"] = [{}, {"delay_ms": rng.choice([25, 50])}]
        g = {"program": Program(steps, outs, gen.BASE_INPUT), "scripts": scripts, "input": gen.base_input(rng), "shape": "list-starting-with-a-constant/%s" % where, "outcome": outcome}
        case, sem = runfam.build_case("c03-cl%04d" % j, g)
        items.append((case, sem, g))
    # the engine is configured to log `success` outputs and its log target is slow, while other steps complete
    for j in range(check.pick(60, 400)):
        rng = random.Random(derive_seed(check.seed, "c03-logged", j))
        g = runfam.gen_terminating(check.seed, "c03-lg%d" % j, p_fail=0.1, outcomes=["error", "crash"], shape=rng.choice(["fan_in", "diamond", "chain", "fan_out", "multiref"]))
        if g is None:
            continue
        for src in list(g["scripts"]):
            if rng.random() < 0.5:
                ds = g["scripts"][src].get("deploys") or [{}, {}]
                while len(ds) < 2:
                    ds.append({})
                ds[1] = dict(ds[1], delay_ms=rng.choice([5, 15, 30]))
                g["scripts"][src]["deploys"] = ds
        g["shape"] += "/slow-output-log"
        case, sem = runfam.build_case("c03-lo%04d" % j, g, logged_outputs={"success": rng.choice([20, 40])})
        items.append((case, sem, g))
    # workflow input of every type flowing into outputs and step inputs: what expressions see is the serialized form of the
    # validated input (a pattern is its text, typed lists and maps are plain lists and maps)
    from ..model import InputSchema, In
    isch = InputSchema({"s": {"type": "string"}, "p": {"type": ("pattern",)}, "i": {"type": "integer"}, "fl": {"type": "float"}, "bo": {"type": "bool"},
                        "li": {"type": ("list", "integer")}, "ls": {"type": ("list", ("pattern",)), "required": False}, "ma": {"type": ("map", "string", "integer")},
                        "en": {"type": ("enum", ["x", "y"])}, "ob": {"type": ("object", "Inner", {"k": {"type": "integer"}, "q": {"type": ("list", "float"), "required": False}})},
                        "dflt": {"type": "integer", "required": False, "default": 9}})
    for i in range(check.pick(24, 200)):
        rng = random.Random(derive_seed(check.seed, "c03-typed", i))
        doc = {"s": rng.choice(["str", "12", ""]), "p": rng.choice(["^a+$", "[0-9]{2}", "x|y"]), "i": rng.choice([5, -3, 0, "17"]), "fl": rng.choice([1.5, -2, "0.25"]), "bo": rng.choice([True, False, "true"]),
               "li": rng.choice([[1, 2, 3], [], ["4", 5]]), "ma": rng.choice([{"k": 3}, {}, {"a": 1, "b": "2"}]), "en": rng.choice(["x", "y"]), "ob": {"k": rng.choice([1, "2"])}}
        if rng.random() < 0.5:
            doc["ls"] = ["a|b", "c+"]
        if rng.random() < 0.5:
            doc["ob"]["q"] = [1, 2.5]
        fields = rng.sample(["s", "p", "i", "fl", "bo", "li", "ma", "en", "ob", "dflt"] + (["ls"] if "ls" in doc else []), rng.choice([1, 3, 6]))
        a = gen.plugin_step("a", Expr(In("s")), extra_input={"a": {f: Expr(In(f)) for f in fields}})
        outs = {"success": dict({f: Expr(In(f)) for f in fields}, a=Expr(Ref("a", "outputs", "success", "a")))}
        if rng.random() < 0.4:
            outs["success"]["all"] = Expr(In())
        prog = Program([a], outs, isch)
        gs_item = {"program": prog, "scripts": gen.make_scripts([a], {}), "input": doc, "shape": "typed-input/%s" % "+".join(sorted(fields)), "outcome": {}}
        case, sem = runfam.build_case("c03-ty%04d" % i, gs_item)
        items.append((case, sem, gs_item))
    # no output is producible and only the stuck-workflow check can find that out: the run must still return (with an error)
    from .c01 import late_waiter_case
    late = []
    for i in range(check.pick(20, 150)):
        rng = random.Random(derive_seed(check.seed, "c03-late", i))
        g = late_waiter_case(rng)
        case, sem = runfam.build_case("c03-lw%04d" % i, g, **({"triggers": g["triggers"]} if g["triggers"] else {}))
        late.append((case, sem, g))
    # runs aborted by the caller while a step never ends: whatever is returned is a declared output with its data or an error -
    # never neither, and a returned output is built from what was produced
    from .. import cancelfam
    aborted = []
    for j in range(check.pick(36, 240)):
        rng = random.Random(derive_seed(check.seed, "c03-abort", j))
        prog, scripts, name = cancelfam.NEVER_ENDING[j % len(cancelfam.NEVER_ENDING)](rng)
        inp = cancelfam.base_input(rng)
        evs, sem_ = cancelfam.certain_events(prog, scripts, inp)
        kind, src, nth = evs[rng.randrange(len(evs))]
        aborted.append(({"id": "c03-ab%04d" % j, "files": prog.files(), "scripts": scripts, "runs": [{"input": inp}], "triggers": [{"kind": kind, "src": src, "nth": nth, "action": "cancel:0"}]},
                        prog, "%s aborted at %s:%s#%d" % (name, kind, src, nth)))
    with harness.Runner() as rn:
        if not rn.hang_oracle_works():
            check.fail_broken("the hang oracle (Go runtime deadlock report) does not fire in this build")
        runfam.run_and_monitor(check, rn, items, {"C03"}, on_result=on_result, claim_deaths=True)
        lout = rn.run_cases([c for c, _s, _g in late])
        aout = rn.run_cases([c for c, _p, _s in aborted], per_case_timeout=90)
    for case, prog, shape in aborted:
        o = aout.get(case["id"], {})
        check.count()
        if "result" not in o or o["result"].get("prepare_err") or o["result"].get("parse_err"):
            check.inconclusive_case(case["id"], str(o.get("death", {}).get("key") or "rejected"))
            continue
        run = (o["result"].get("runs") or [{}])[0]
        if not run.get("out_id") and not run.get("err"):
            check.report("result@neither-output-nor-error", "%s: the run returned neither a declared output nor an error" % shape, {"case": case, "run": run})
        elif run.get("out_id") and run["out_id"] not in prog.outputs:
            check.report("result@undeclared-output", "%s: the run returned the output %r, which the workflow does not declare" % (shape, run["out_id"]), {"case": case, "run": run})
        elif run.get("out_id") and run.get("schema_check"):
            check.report("result@output-not-of-declared-type", "%s: the returned output %r does not match its schema: %s" % (shape, run["out_id"], run["schema_check"][:200]), {"case": case, "run": run})
        check.nontrivial("aborted|%s|%s" % (shape.split(" aborted")[0], "output" if run.get("out_id") else "error"))
    for case, sem, g in late:
        o = lout.get(case["id"], {})
        check.count()
        if "death" in o:
            d = o["death"]
            if d["kind"] == "deadlock":
                check.report("result@never-returned", "no output is producible (%s) and the run returned neither an error nor an output: %s" % (g["shape"], d["key"]),
                             {"case": case, "detail": d.get("detail", "")[:3000]})
            else:
                check.inconclusive_case(case["id"], "%s %s" % (d["kind"], d["key"]))
            continue
        for v in mon.monitor_run(case, o["result"], sem):
            if v.prop == "C03":
                check.report(v.key, "case %s (%s): %s" % (case["id"], g["shape"], v.what), {"case": case, "violation": v.to_json()})
        check.nontrivial(g["shape"])
    check.extra["result_kinds"] = ids
    check.extra["exhaustive_outcome_vectors"] = not check.quick()
