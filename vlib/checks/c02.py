"""C02 - steps start only after their dependencies, with the data those produced."""
import random

from .. import gen, harness, mon, ref, runfam
from ..core import Check, derive_seed
from ..model import Expr, In, Ref, Program, walk_tree, node_refs


def edges(prog):
    """(producer, consumer, field) for every cross-step reference of plugin steps at top level."""
    out = []
    names = {s.name for s in prog.steps}
    for s in prog.steps:
        for f, tree in s.fields.items():
            def fn(node, path, s=s, f=f):
                n = getattr(node, "node", None) or getattr(node, "ref", None)
                if n is None:
                    return
                for r in node_refs(n):
                    if isinstance(r, Ref) and r.step in names and r.step != s.name:
                        out.append((r.step, s.name, f))
            walk_tree(tree, fn)
    return out


def add_consumer_first_gates(rng, g):
    """Holds some producers' executions until the consumer's run-time deployment has been logged, so that
    the consumer is ready (deployed, waiting for input) *before* its data exists."""
    prog = g["program"]
    trig, gated = [], []
    es = edges(prog)
    rng.shuffle(es)
    for prod, cons, field in es[:3]:
        p, c = prog.step(prod), prog.step(cons)
        if p.kind != "plugin" or c.kind != "plugin" or c.field("deploy") is not None:
            continue
        if (g["scripts"].get(c.src) or {}).get("deploys"):
            continue  # the consumer's run-time deployment is scripted to fail: its deploy-ok never comes
        sc = g["scripts"].setdefault(p.src, {})
        ex = sc.setdefault("exec", {})
        if ex.get("gate") or ex.get("outcome") == "hang":
            continue
        # the consumer's deployment must not itself wait for something gated (avoid circular waits):
        # every plugin step deploys at run start unless it has a deploy expression, so this is safe.
        gate = "g_%s" % prod
        ex["gate"] = gate
        trig.append({"kind": "deploy-ok", "src": c.src, "nth": 2, "action": "open:" + gate})
        gated.append((prod, cons, field))
    return trig, gated


def run(check):
    n = check.pick(300, 5000)
    check.rule = ("generated programs with cross-step references in input / wait_for / deploy / enabled fields (chains, diamonds, fan-in/out, "
                  "wait_for on outputs and stages, deploy-time expressions, foreach items); producer executions are gated so that the consumer is "
                  "deployed first, or left free, plus random delay plans; monitor: every exec-start / deploy-call is preceded in the log by the "
                  "production event of everything it refers to, and the logged input equals the reference evaluation over the logged values; plus step inputs with a "
                  "field that cannot be evaluated (the step must not be started without it) and programs with members that are ready from the start under "
                  "multi-site delay plans; (h) output logging with a slow log target while other steps complete; (m) loops whose item runs end together, (l) consumers of a whole stage of a step whose start failed, (k) objects of the data model used by several consumers one after the other (loop result through !ordisabled, input list looped over twice); (j) deploy-time expressions that differ between repeated runs and loop items of one prepared workflow; (i) inputs read from an input file whose scalars a type-resolving "
                  "YAML reader would re-type (leading zeros, hex, underscores, yes/no): steps must be given the text / base-ten value the declared schema yields; "
                  "(h) output logging with a slow log target while other steps complete; (i) inputs read from an input file whose scalars a type-resolving YAML reader would re-type (leading zeros, hex, underscores, yes/no); non-trivial = at least one cross-step reference; distinct = (shape, referencing field kinds, consumer-first gating, arrival order)")
    check.assumptions = ["values carry provenance: every scripted step derives its output from its input and its own name"]
    items = []
    gates_of = {}
    for i in range(n):
        rng = random.Random(derive_seed(check.seed, "c02", i))
        g = runfam.gen_terminating(check.seed, "c02-%d" % i, shape=rng.choice(["chain", "diamond", "fan_in_step", "fan_out", "wait_for", "deploy_expr", "enabled", "foreach_after", "random_dag", "random_dag", "multiref", "multiref"]), p_fail=0.15,
                                   outcomes=["error", "alt", "crash", "deployfail"])
        if g is None:
            continue
        opts = {}
        r = rng.random()
        gated = []
        if r < 0.45:
            trig, gated = add_consumer_first_gates(rng, g)
            if trig:
                opts["triggers"] = trig
        elif r < 0.7:
            opts["plan"] = {"seed": rng.randrange(1 << 30), "prob": 50, "choices": [-1, 1, 4, 10], "max_acts": 15, "record": True}
            opts["plan_scope"] = "execute"
        case, sem = runfam.build_case("c02-%05d" % i, g, **opts)
        gates_of[case["id"]] = gated
        items.append((case, sem, g))
    # (b) a field of a step input that cannot be evaluated although its producers are done: the step must not be started
    # with the field left out (the run ends with an error instead)
    for j in range(check.pick(60, 600)):
        rng = random.Random(derive_seed(check.seed, "c02-fault", j))
        g = runfam.gen_terminating(check.seed, "c02-f%d" % j, shape=rng.choice(["chain", "diamond", "fan_in", "wait_for", "multiref"]), p_fail=0.0)
        if g is None:
            continue
        prog = g["program"]
        what = gen.add_fault(rng, prog.steps, prog.outputs, where=rng.choice(["step-needed", "step-unneeded"]))
        g["scripts"] = gen.make_scripts(prog.steps, g["outcome"])
        g["shape"] = "%s/evalfault(%s)" % (g["shape"], what)
        case, sem = runfam.build_case("c02-f%04d" % j, g)
        gates_of[case["id"]] = []
        items.append((case, sem, g))
    # (c) members that are ready from the very start (optional / one-of values that only need the workflow input) next to
    # ordinary cross-step references, under random multi-site delay plans: the initial delivery round then overlaps with
    # the first completions
    from ..model import Opt, OneOf
    for j in range(check.pick(150, 1500)):
        rng = random.Random(derive_seed(check.seed, "c02-early", j))
        a = gen.plugin_step("a", Expr(In("tag")))
        early = rng.choice([{"x": Opt(In("tag"), True)}, {"x": Opt(In("tag"), False)}, {"x": OneOf("k", {"i": {"t": Expr(In("tag"))}})}, [Opt(In("n"), True), Opt(In("tag"), False)]])
        c = gen.plugin_step("c", gen.tagref("a"), extra_input={"a": early})
        steps = [a, c] + [gen.plugin_step("p%d" % k, Expr(In("tag"))) for k in range(rng.choice([0, 1, 3]))]
        rng.shuffle(steps)
        outs = {"success": {"c": gen.tagref("c"), "e": Opt(In("tag"), True)}}
        prog = Program(steps, outs, gen.BASE_INPUT)
        g = {"program": prog, "scripts": gen.make_scripts(steps, {}), "input": gen.base_input(rng), "shape": "ready-from-start-member", "outcome": {}}
        plan = {"seed": rng.randrange(1 << 30), "prob": rng.choice([30, 60]), "choices": [-1, 1, 10, 35], "max_acts": 12, "record": True}
        if j % 3:
            # the delivery round is held where it resolves a member that is ready from the start, and every placement of a
            # step output into the data model takes a while: the next delivery round begins while some output is resolved
            # in the graph but not yet stored
            sites = [{"point": "wf:loopState.notifySteps:resolve#1", "hit": h, "ms": rng.choice([25, 40])} for h in (1, 2)]
            sites += [{"point": "wf:loopState.onStageComplete:%s" % rng.choice(["store#1", "store#1", "resolve#2", "store#2"]), "hit": h, "ms": 15} for h in range(1, 9)]
            plan = {"sites": sites, "record": True}
        case, sem = runfam.build_case("c02-e%04d" % j, g, plan=plan, plan_scope="execute")
        gates_of[case["id"]] = []
        items.append((case, sem, g))
    # (h) the engine is configured to log `success` outputs and its log target is slow: while one step's output is being
    # written to the log, other steps complete and deliveries run
    for j in range(check.pick(100, 800)):
        rng = random.Random(derive_seed(check.seed, "c02-logged", j))
        g = runfam.gen_terminating(check.seed, "c02-lg%d" % j, p_fail=0.1, outcomes=["error", "crash"], shape=rng.choice(["fan_in", "diamond", "chain", "fan_out", "multiref", "fan_in_step", "random_dag"]))
        if g is None:
            continue
        for src in list(g["scripts"]):
            if rng.random() < 0.5:
                ds = g["scripts"][src].get("deploys") or [{}, {}]
                while len(ds) < 2:
                    ds.append({})
                ds[1] = dict(ds[1], delay_ms=rng.choice([5, 15, 30]))
                g["scripts"][src]["deploys"] = ds
        g["shape"] += "/slow-output-log"
        case, sem = runfam.build_case("c02-lo%04d" % j, g, logged_outputs={"success": rng.choice([20, 40]), "error": 10})
        gates_of[case["id"]] = []
        items.append((case, sem, g))
    orders = set()
    stats = {"consumer_first_observed": 0, "deploy_time_refs": 0}

    def on_result(cid, case, sem, g, res, vs):
        es = edges(sem.p)
        if not es:
            return
        kinds = sorted(set(f for _p, _c, f in es))
        # arrival order: was some consumer deployed before its producer finished?
        first = {}
        for e in res.get("events") or []:
            if e["kind"] == "exec-end":
                first.setdefault(("end", e["src"]), e["seq"])
            if e["kind"] == "deploy-ok" and mon._nth(e) >= 2:
                first.setdefault(("dep", e["src"]), e["seq"])
        cf = False
        for p, c, f in es:
            try:
                ps, cs = sem.p.step(p).src, sem.p.step(c).src
            except KeyError:
                continue
            if ("dep", cs) in first and ("end", ps) in first and first[("dep", cs)] < first[("end", ps)]:
                cf = True
        if cf:
            stats["consumer_first_observed"] += 1
        if "deploy" in kinds:
            stats["deploy_time_refs"] += 1
        check.nontrivial("%s|%s|gated=%s|consumer_first=%s" % (g["shape"], kinds, bool(gates_of.get(cid)), cf))
        orders.add(mon.event_order_signature(res))
        starts = [e for e in res.get("events") or [] if e["kind"] == "exec-start"]
        if starts:
            check.sample({"case": cid, "shape": g["shape"], "edges": es[:6], "gated": gates_of.get(cid), "first_exec_start": starts[0]}, limit=3)

    def monitor(case, res, sem):
        vs = mon.monitor_run(case, res, sem)
        run = (res.get("runs") or [{}])[0]
        # a stage input (or output) evaluated before its data exists shows up as an evaluation error of the run
        if "cannot resolve expressions" in (run.get("err") or "") and sem.result()["avail"] and not sem.result()["fault"]:
            vs.append(mon.V("C02", "input@evaluated-before-production", "expressions were evaluated before the data they refer to had been produced: %s" % run["err"][:300]))
        # a step one of whose input expressions cannot be evaluated must not be started with something else instead
        for name, why in sem.step_faults.items():
            src = sem.p.step(name).src
            for e in res.get("events") or []:
                if e["kind"] == "exec-start" and e["src"] == src:
                    vs.append(mon.V("C02", "input@unevaluable-field-replaced", "plugin %s was started with input %r although an expression of its input cannot be evaluated (%s)" % (
                        src, (e.get("data") or {}).get("raw"), why)))
        # a step that was given its input although a whole stage it refers to (e.g. $.steps.A.starting of a step whose start failed)
        # never completed: the reference's may-run set says it cannot have its starting input
        for v in list(vs):
            if v.prop == "C04" and v.key == "exec@not-runnable" and "starting input impossible" in v.what:
                vs.append(mon.V("C02", "input@given-although-referenced-stage-never-completed", v.what))
        return vs

    # (e) tagged members (wait-optional also inside a one-of option, soft-optional, one-of, or-disabled) in the input of a step,
    # with both completion orders of their sources forced: the consumer's logged input must be the reference value
    from . import c15
    for j in range(check.pick(70, 700)):
        g, trig = c15.build(8 * j + (6 if j % 2 else j % 6), check)
        if not any(s_.name == "C" for s_ in g["program"].steps) or g.get("logged_outputs"):
            continue
        inp = ref.normalise_input(g["program"].input_schema, g["input"])
        r0 = ref.RefSem(g["program"], g["scripts"], inp).result()
        if not r0["avail"] and r0["pending"]:
            continue
        case, sem = runfam.build_case("c02-t%04d" % j, g, **({"triggers": trig} if trig else {}))
        gates_of[case["id"]] = []
        items.append((case, sem, g))
    # (f) steps that consume the engine's own failure reports (crashed.error, deploy_failed.error) of another step, as a whole
    # and field by field, in input and wait_for
    for j in range(check.pick(24, 200)):
        rng = random.Random(derive_seed(check.seed, "c02-report", j))
        how = rng.choice(["crash", "deployfail"])
        a = gen.plugin_step("a", Expr(In("tag")))
        rep = Ref("a", "crashed", "error") if how == "crash" else Ref("a", "deploy_failed", "error")
        leaf = Ref("a", "crashed", "error", "output") if how == "crash" else Ref("a", "deploy_failed", "error", "error")
        place = rng.choice(["input-field", "input-any-whole", "wait_for-whole", "wait_for-field"])
        if place == "input-field":
            h = gen.plugin_step("h", Expr(leaf))
        elif place == "input-any-whole":
            h = gen.plugin_step("h", Expr(In("tag")), extra_input={"a": Expr(rep)})
        elif place == "wait_for-whole":
            h = gen.plugin_step("h", Expr(In("tag")), wait_for=Expr(rep))
        else:
            h = gen.plugin_step("h", Expr(In("tag")), wait_for={"why": Expr(leaf)})
        steps = [a, h]
        rng.shuffle(steps)
        prog = Program(steps, {"handled": {"h": gen.tagref("h")}, "fine": {"a": gen.tagref("a")}}, gen.BASE_INPUT)
        g = {"program": prog, "scripts": gen.make_scripts(steps, {"a": how}), "input": gen.base_input(rng), "shape": "failure-report-consumer/%s/%s" % (how, place), "outcome": {"a": how}}
        case, sem = runfam.build_case("c02-r%04d" % j, g)
        gates_of[case["id"]] = []
        items.append((case, sem, g))
    # (d) two workflow trees that use the same sub-workflow file name with different contents, prepared and run one after the
    # other through one step registry: every run's values must come from its own files
    from ..model import Step
    seq_cases = []
    for j in range(check.pick(12, 80)):
        rng = random.Random(derive_seed(check.seed, "c02-seq", j))
        progs = []
        for k, nsub in enumerate(rng.sample([1, 2, 3], 2) + [rng.choice([1, 2, 3])]):
            sub = gen.sub_program("sub.yaml", nsub)
            loop = Step("loop", "foreach", sub=sub, items=[{"tag": Expr(In("tag"))}, {"tag": "k%d" % k}], parallelism=rng.choice([1, 2]))
            progs.append(Program([loop], {"success": {"d": Expr(Ref("loop", "outputs", "success", "data"))}}, gen.BASE_INPUT))
        inputs = [{"tag": "Q%d_%d" % (j, k)} for k in range(len(progs))]
        scripts = {}
        for pr in progs:
            scripts.update(gen.make_scripts(pr.steps, {}))
        seq = [{"files": pr.files(), "input": inp} for pr, inp in zip(progs, inputs)]
        sems = [ref.RefSem(pr, scripts, ref.normalise_input(pr.input_schema, inp)) for pr, inp in zip(progs, inputs)]
        seq_cases.append(({"id": "c02-q%04d" % j, "mode": "seq", "files": {}, "scripts": scripts, "runs": [], "extra": {"sequence": seq}}, sems))
    # (g) a reference to a step (or to all steps) as a whole: if preparation accepts it, the referring stage must still not get
    # its input before that step has produced what it produces
    from ..model import RawExpr
    whole = []
    for j in range(check.pick(8, 40)):
        rng = random.Random(derive_seed(check.seed, "c02-whole", j))
        text = rng.choice(["$.steps.a", "$.steps.a", "$.steps"])
        field = rng.choice(["wait_for", "input.a"])
        a = gen.plugin_step("a", Expr(In("tag")))
        h = gen.plugin_step("h", Expr(In("tag")))
        if field == "wait_for":
            h.fields["wait_for"] = Expr(RawExpr(text))
        else:
            h.fields["input"]["a"] = Expr(RawExpr(text))
        prog = Program([h, a], {"success": {"h": gen.tagref("h"), "a": gen.tagref("a")}}, gen.BASE_INPUT)
        scripts = gen.make_scripts([a, h], {})
        scripts["a"]["deploys"] = [{}, {"delay_ms": 40}]
        whole.append({"id": "c02-w%04d" % j, "files": prog.files(), "scripts": scripts, "runs": [{"input": gen.base_input(rng)}], "what": "%s: %s" % (field, text)})
    # (i) the workflow input comes from an input file (engine entry point): the steps are given what the text of the file says
    # once the declared input schema has typed it - a string field keeps its text, an integer field is read in base ten
    from ..model import InputSchema
    fsch = InputSchema({"s": {"type": "string"}, "i": {"type": "integer"}, "fl": {"type": "float"}, "ls": {"type": ("list", "string"), "required": False}})
    FILE_DOCS = [("s: 007\ni: 12\nfl: 1.5\n", {"s": "007", "i": 12, "fl": 1.5}), ("s: 1.10\ni: 010\nfl: 1.50\n", {"s": "1.10", "i": 10, "fl": 1.5}),
                 ("s: 0x10\ni: 0011\nfl: 2\n", {"s": "0x10", "i": 11, "fl": 2.0}), ("s: 1_000\ni: -07\nfl: 1e3\n", {"s": "1_000", "i": -7, "fl": 1000.0}),
                 ("s: 0o17\ni: 5\nfl: 0.25\nls: [01, 1.0, 0x1, yes, 'no']\n", {"s": "0o17", "i": 5, "fl": 0.25, "ls": ["01", "1.0", "0x1", "yes", "no"]}),
                 ("{s: yes, i: '08', fl: '3.0'}\n", {"s": "yes", "i": 8, "fl": 3.0}), ("s: 2001-01-01\ni: 7\nfl: 7\n", {"s": "2001-01-01", "i": 7, "fl": 7.0}),
                 ("s: plain words\ni: 12\nfl: -0.5\n", {"s": "plain words", "i": 12, "fl": -0.5})]
    file_cases = []
    for j, (text, doc) in enumerate(FILE_DOCS):
        a = gen.plugin_step("a", Expr(In("s")), extra_input={"n": Expr(In("i")), "f": Expr(In("fl")), "a": Expr(In())})
        b = gen.plugin_step("b", gen.tagref("a"), extra_input={"a": dict({"s": Expr(In("s")), "i": Expr(In("i"))}, **({"ls": Expr(In("ls"))} if "ls" in doc else {})), "n": Expr(In("i"))})
        prog = Program([b, a], {"success": {"b": gen.tagref("b"), "all": Expr(In())}}, fsch)
        file_cases.append(({"id": "c02-i%04d" % j, "mode": "engine", "files": prog.files(), "scripts": gen.make_scripts([a, b], {}), "runs": [], "extra": {"engine": {"input_yaml": text}}}, text, doc))
    # (n) a consumer of a loop's failure report (the results of the items that did succeed, keyed by item index) and one-of values
    # whose option names end alike ("x.b" and "b"), only one of them ever produced
    from ..model import OneOf
    for j in range(check.pick(16, 80)):
        rng = random.Random(derive_seed(check.seed, "c02-report", j))
        if j % 2 == 0:
            nn = rng.choice([3, 4, 5])
            failing = sorted(rng.sample(range(nn - 1), rng.choice([1, 2]) if nn > 3 else 1))  # never only the last ones
            sub = gen.sub_program("sub.yaml", 1)
            loop = Step("loop", "foreach", sub=sub, items=Expr(In("items")), parallelism=rng.choice([1, 2]))
            after = gen.plugin_step("after", Expr(In("tag")), extra_input={"a": Expr(Ref("loop", "failed", "error", "data"))})
            steps = [loop, after]
            rng.shuffle(steps)
            prog = Program(steps, {"handled": {"a": Expr(Ref("after", "outputs", "success", "a")), "rep": Expr(Ref("loop", "failed", "error", "data"))}, "fine": {"d": Expr(Ref("loop", "outputs", "success", "data"))}}, gen.BASE_INPUT)
            scripts = gen.make_scripts(steps, {})
            scripts["sub_w0"]["exec_by_tag"] = {"f%d_%d" % (j, q): {"outcome": "crash"} for q in failing}
            g = {"program": prog, "scripts": scripts, "input": {"tag": "T", "items": [{"tag": ("f%d_%d" if q in failing else "g%d_%d") % (j, q)} for q in range(nn)]}, "shape": "failure-report-data-consumer/n=%d/failing=%s" % (nn, failing),
                 "outcome": {"loop": "partly-failed"}}
        else:
            na, nb = [("x.b", "b"), ("b", "x.b"), ("a.b", "c.b"), ("v1.0", "0")][(j // 2) % 4]
            A, B = gen.plugin_step("A", Expr(In("tag"))), gen.plugin_step("B", Expr(In("tag")))
            C = gen.plugin_step("C", Expr(In("tag")), extra_input={"a": {"v": OneOf("which", {na: Expr(Ref("A", "outputs", "success")), nb: Expr(Ref("B", "outputs", "success"))})}})
            steps = [A, B, C]
            rng.shuffle(steps)
            outcome = {"B": "error"} if (j // 8) % 2 == 0 else {"A": "crash"}
            prog = Program(steps, {"success": {"c": Expr(Ref("C", "outputs", "success"))}}, gen.BASE_INPUT)
            g = {"program": prog, "scripts": gen.make_scripts(steps, outcome), "input": gen.base_input(rng), "shape": "one-of-option-names/%s|%s" % (na, nb), "outcome": outcome}
        case, sem = runfam.build_case("c02-rp%04d" % j, g)
        gates_of[case["id"]] = []
        items.append((case, sem, g))
    # (m) loops whose item runs end at the same instant (executions released together by a gate), every item with its own value,
    # and a step that consumes the loop's result list: position i holds the result of item i
    for j in range(check.pick(60, 300)):
        rng = random.Random(derive_seed(check.seed, "c02-burst", j))
        nn, par = rng.choice([(16, 16), (32, 16), (48, 16), (24, 8)])
        sub = gen.sub_program("sub.yaml", 1)
        fe = Step("loop", "foreach", sub=sub, items=Expr(In("items")), parallelism=par)
        after = gen.plugin_step("after", Expr(In("tag")), extra_input={"a": Expr(Ref("loop", "outputs", "success", "data"))})
        prog = Program([fe, after], {"success": {"d": Expr(Ref("loop", "outputs", "success", "data")), "after": Expr(Ref("after", "outputs", "success", "a"))}}, gen.BASE_INPUT)
        scripts = gen.make_scripts([fe, after], {})
        scripts["sub_w0"]["exec_by_tag"] = {"b%d_%d" % (j, q): {"outcome": "success", "gate": "go"} for q in range(nn)}
        g = {"program": prog, "scripts": scripts, "input": {"tag": "T", "items": [{"tag": "b%d_%d" % (j, q)} for q in range(nn)]}, "shape": "loop-items-ending-together/n=%d/par=%d" % (nn, par), "outcome": {}}
        case, sem = runfam.build_case("c02-bu%04d" % j, g, triggers=[{"kind": "exec-start", "src": "sub_w0", "nth": par, "action": "open:go"}])
        gates_of[case["id"]] = []
        items.append((case, sem, g))
    # (l) a consumer of a whole stage of a step whose start fails after a successful deployment: it is never given that input
    from . import c04
    for j in range(check.pick(20, 80)):
        g = c04.start_failure_stage_reference(check, 500 + j)
        case, sem = runfam.build_case("c02-sf%04d" % j, g)
        gates_of[case["id"]] = []
        items.append((case, sem, g))
    # (k) objects of the data model that several consumers refer to one after the other: a loop's whole result taken through
    # !ordisabled by one step and handed on as it is to a later one; a list of the workflow input looped over by one loop and then
    # by another (and echoed in the output): what the later consumer sees is exactly what the producer emitted
    from ..model import OrDisabled
    shared = []
    for j in range(check.pick(16, 80)):
        rng = random.Random(derive_seed(check.seed, "c02-shared", j))
        tags = ["s%d_%d" % (j, q) for q in range(rng.choice([2, 3]))]
        if j % 2 == 0:
            producer = Step("producer", "foreach", sub=gen.sub_program("sub.yaml", 1), items=Expr(In("items")), parallelism=rng.choice([1, 2]))
            gate = gen.plugin_step("gate", Expr(In("tag")), wait_for=OrDisabled(Ref("producer", "outputs", "success")))
            if j % 4 == 2:
                gate = gen.plugin_step("gate", Expr(In("tag")), extra_input={"a": OrDisabled(Ref("producer", "outputs", "success"))})
            later = gen.plugin_step("later", gen.tagref("gate"), extra_input={"a": Expr(Ref("producer", "outputs", "success"))})
            steps = [producer, gate, later]
            rng.shuffle(steps)
            prog = Program(steps, {"success": {"l": gen.tagref("later"), "p": Expr(Ref("producer", "outputs", "success"))}}, gen.BASE_INPUT)
            want = {"data": [{"t": "sub_w0(%s)" % t} for t in tags]}
            shared.append(({"id": "c02-s%04d" % j, "files": prog.files(), "scripts": gen.make_scripts(steps, {}), "runs": [{"input": {"tag": "T", "items": [{"tag": t} for t in tags]}}]}, "later", "a", want, "p",
                           "loop result taken through !ordisabled and handed on"))
        else:
            l1 = Step("l1", "foreach", sub=gen.sub_program("sub.yaml", 1), items=Expr(In("items")), parallelism=rng.choice([1, 2]))
            l2 = Step("l2", "foreach", sub=gen.sub_program("sub2.yaml", 1), items=Expr(In("items")), wait_for=Expr(Ref("l1", "outputs", "success")))
            echo = gen.plugin_step("echo", Expr(In("tag")), extra_input={"a": Expr(In("items"))}, wait_for=Expr(Ref("l2", "outputs", "success")))
            steps = [l1, l2, echo]
            rng.shuffle(steps)
            prog = Program(steps, {"success": {"d1": Expr(Ref("l1", "outputs", "success", "data")), "d2": Expr(Ref("l2", "outputs", "success", "data")), "items": Expr(In("items")), "e": gen.tagref("echo")}}, gen.BASE_INPUT)
            want = [{"tag": t} for t in tags]
            shared.append(({"id": "c02-s%04d" % j, "files": prog.files(), "scripts": gen.make_scripts(steps, {}), "runs": [{"input": {"tag": "T", "items": [{"tag": t} for t in tags]}}]}, "echo", "a", want, "items",
                           "input list looped over twice and echoed"))
    # (j) deploy-time expressions whose value differs from run to run of one prepared workflow (repeated Execute calls, items of
    # a loop): every deployment is made with the configuration its own run evaluated
    redeploy = []
    for j in range(check.pick(12, 60)):
        rng = random.Random(derive_seed(check.seed, "c02-redeploy", j))
        if j % 2 == 0:
            a = gen.plugin_step("a", Expr(In("tag")), deploy={"deployer_name": "scripted", "tag": Expr(In("tag"))})
            prog = Program([a], {"success": {"a": gen.tagref("a")}}, gen.BASE_INPUT)
            tags = ["R%d_%d" % (j, q) for q in range(rng.choice([2, 3, 4]))]
            case = {"id": "c02-d%04d" % j, "files": prog.files(), "scripts": gen.make_scripts([a], {}), "runs": [{"input": {"tag": t}, "tag": "r%d" % q} for q, t in enumerate(tags)]}
            redeploy.append((case, "a", tags, "repeated Execute"))
        else:
            w0 = gen.plugin_step("w0", Expr(In("tag")), src="sub_w0", deploy={"deployer_name": "scripted", "tag": Expr(In("tag"))})
            sub = Program([w0], {"success": {"t": gen.tagref("w0")}}, gen.SUB_INPUT, name="sub.yaml")
            tags = ["I%d_%d" % (j, q) for q in range(rng.choice([2, 4, 6]))]
            fe = Step("loop", "foreach", sub=sub, items=Expr(In("items")), parallelism=rng.choice([1, 2, 3]))
            prog = Program([fe], {"success": {"d": Expr(Ref("loop", "outputs", "success", "data"))}}, gen.BASE_INPUT)
            case = {"id": "c02-d%04d" % j, "files": prog.files(), "scripts": gen.make_scripts([fe], {}), "runs": [{"input": {"tag": "T", "items": [{"tag": t} for t in tags]}}]}
            redeploy.append((case, "sub_w0", tags, "loop items"))
    with harness.Runner() as rn:
        runfam.run_and_monitor(check, rn, items, {"C02"}, on_result=on_result, monitor=monitor)
        dout = rn.run_cases([c for c, _s, _t, _h in redeploy])
        shout = rn.run_cases([c for c, _a, _b, _c, _d, _e in shared])
        seq_out = rn.run_cases([c for c, _s in seq_cases])
        wout = rn.run_cases([{k: v for k, v in c.items() if k != "what"} for c in whole])
        fout = rn.run_cases([c for c, _t, _d in file_cases])
    for case, src, field, want, outkey, what in shared:
        o = shout.get(case["id"], {})
        check.count()
        res = o.get("result") or {}
        if "result" not in o or res.get("prepare_err") or res.get("parse_err"):
            check.inconclusive_case(case["id"], str(o.get("death", {}).get("key") or res.get("prepare_err") or res.get("parse_err")))
            continue
        run = (res.get("runs") or [{}])[0]
        got_in = [ref.denum((e.get("data") or {}).get("raw") or {}).get(field) for e in res.get("events") or [] if e["kind"] == "exec-start" and e["src"] == src]
        data = ref.denum(run.get("data")) or {}
        if run.get("err") or not got_in:
            check.report("shared@run-failed", "%s: the run failed or the last consumer did not run: %s" % (what, (run.get("err") or "no execution of %s" % src)[:200]), {"case": case})
        else:
            for label, got in (("step %s" % src, got_in[0]), ("workflow output member %r" % outkey, data.get(outkey))):
                m = ref.match(want, got)
                if m:
                    check.report("shared@object-changed-between-consumers", "%s: %s was given something else than the producer emitted: %s (got %r)" % (what, label, m, got), {"case": case})
            if "d2" in data and [x.get("t") for x in data.get("d2") or []] != ["sub2_w0(%s)" % x["tag"] for x in want]:
                check.report("shared@object-changed-between-consumers", "%s: the second loop did not work on the items of the input: %r" % (what, data.get("d2")), {"case": case})
        check.nontrivial("shared|" + what)
    for case, src, tags, how in redeploy:
        o = dout.get(case["id"], {})
        check.count()
        if "result" not in o or o["result"].get("prepare_err") or o["result"].get("parse_err"):
            check.inconclusive_case(case["id"], str(o.get("death", {}).get("key") or o.get("result", {}).get("prepare_err")))
            continue
        got = [(e.get("data") or {}).get("tag") for e in o["result"].get("events") or [] if e["kind"] == "deploy-call" and e["src"] == src and ((e.get("data") or {}).get("nth") or 0) >= 2]
        if (got != tags) if how == "repeated Execute" else (sorted(got) != sorted(tags)):
            check.report("deploy@configuration-of-another-run", "%s of one prepared workflow with a deploy-time expression: deployments were made with the configurations %r, the runs evaluated %r" % (how, got, tags), {"case": case})
        check.nontrivial("redeploy|%s|%d" % (how, len(tags)))
    for case, text, doc in file_cases:
        o = fout.get(case["id"], {})
        check.count()
        res = o.get("result") or {}
        if "result" not in o or res.get("parse_err") or res.get("prepare_err"):
            check.inconclusive_case(case["id"], str(o.get("death", {}).get("key") or res.get("parse_err") or res.get("prepare_err")))
            continue
        seen = {}
        for e in res.get("events") or []:
            if e["kind"] == "exec-start" and e["src"] in ("a", "b"):
                seen[e["src"]] = ref.denum((e.get("data") or {}).get("raw") or {})
        if len(seen) < 2:
            check.report("file@steps-not-run", "input file %r: steps a and b did not both run: %s" % (text, ((res.get("runs") or [{}])[0].get("err") or "")[:200]), {"case": case})
            continue
        exp_a = {"tag": doc["s"], "n": doc["i"], "f": doc["fl"], "a": doc}
        exp_b_a = {"s": doc["s"], "i": doc["i"]}
        if "ls" in doc:
            exp_b_a["ls"] = doc["ls"]
        got_a = {k: seen["a"].get(k) for k in exp_a}
        got_b = {"a": seen["b"].get("a"), "n": seen["b"].get("n")}
        mm = ref.match(exp_a, got_a) or ref.match({"a": exp_b_a, "n": doc["i"]}, got_b)
        if mm:
            check.report("file@value-differs-from-input-file", "input file %r: a step was given something else than the file says under the declared schema: %s (a: %r, b: %r)" % (text, mm, got_a, got_b),
                         {"case": case})
        check.nontrivial("file|%d" % len(text))
    for c in whole:
        o = wout.get(c["id"], {})
        check.count()
        if "result" not in o:
            check.inconclusive_case(c["id"], str(o.get("death", {}).get("key")))
            continue
        res = o["result"]
        if res.get("parse_err") or res.get("prepare_err"):
            stats["whole_step_references_refused"] = stats.get("whole_step_references_refused", 0) + 1
            check.nontrivial("whole|refused|" + c["what"])
            continue
        ev = res.get("events") or []
        hs = [e["seq"] for e in ev if e["kind"] == "exec-start" and e["src"] == "h"]
        ae = [e["seq"] for e in ev if e["kind"] == "exec-end" and e["src"] == "a"]
        if hs and (not ae or hs[0] < ae[0]):
            check.report("order@whole-step-reference", "the workflow with %s was accepted and step h started (seq %d) before step a had produced anything (%s)" % (c["what"], hs[0], ae[:1]),
                         {"case": c, "result": runfam.strip(res)})
        check.nontrivial("whole|accepted|" + c["what"])
    for case, sems in seq_cases:
        o = seq_out.get(case["id"], {})
        check.count()
        if "result" not in o:
            check.inconclusive_case(case["id"], str(o.get("death", {}).get("key")))
            continue
        for pos, (sm, rr) in enumerate(zip(sems, o["result"].get("runs") or [])):
            exp = sm.result()["avail"].get("success")
            if rr.get("err"):
                check.report("sequence@run-failed", "tree %d of a sequence through one step registry failed: %s" % (pos, rr["err"][:200]), {"case": case})
                continue
            m = ref.match(exp, ref.denum(rr.get("data")))
            if m:
                check.report("sequence@foreign-sub-workflow", "tree %d of a sequence through one step registry: the loop's steps did not work on this tree's sub-workflow file: %s" % (pos, m),
                             {"case": case, "run": rr})
        check.nontrivial("seq|%d" % len(sems))
    check.extra.update(stats)
    check.extra["distinct_plugin_event_orders"] = len(orders)
    if stats["consumer_first_observed"] == 0:
        check.fail_broken("no consumer-ready-first schedule was observed")
