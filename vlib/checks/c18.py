"""C18 - built-in expression functions are total, typed as declared and obey their laws."""
from .. import harness
from ..core import Check, derive_seed


def run(check):
    check.rule = ("in-process property-based monitor (Go, recover() around every call): for every function of GetFunctions(), argument lists are generated from the declared "
                  "parameter schemas (only values the schema's Validate accepts) with boundary classes (NaN, +-Inf, signed zero, subnormals, the 2^63 neighbourhood, "
                  "extreme integers, empty / non-ASCII / invalid UTF-8 strings, nested and empty lists, every format letter and precisions -1..5000) plus random values; "
                  "checks: no panic, two calls agree, result accepted by Output(parameter types), and the laws (floatToInt truncates toward zero, is monotonic and "
                  "saturates; string<->int/float/bool round trips; splitString against an independent splitter; case functions idempotent and rune-wise; bindConstants "
                  "length/order/pairing); the same calls repeated through the expression library (Type vs Evaluate vs Call); 8 goroutines evaluating one argument table "
                  "of each function at the same time must get the sequential results; distinct = (function, argument class)")
    check.assumptions = ["readFile / getEnvVar are only checked for totality and determinism within one process"]
    cases = []
    nshards = check.pick(4, 16)
    for i in range(nshards):
        cases.append({"id": "c18-%02d" % i, "mode": "funcs", "extra": {"seed": derive_seed(check.seed, "c18", i) % (1 << 62), "n": check.pick(300, 3000)}, "no_events": True})
    with harness.Runner(instrument=False) as rn:
        out = rn.run_cases(cases, per_case_timeout=300)
    total_calls = 0
    classes = 0
    for cid in sorted(out):
        o = out[cid]
        if "death" in o:
            d = o["death"]
            check.report("fn@" + d["key"], "the function harness died: %s %s" % (d["kind"], d.get("message", "")[:300]), {"detail": d.get("detail", "")[:3000]})
            continue
        ex = o["result"].get("extra") or {}
        check.count(ex.get("calls", 0))
        total_calls += ex.get("calls", 0)
        classes = max(classes, ex.get("classes", 0))
        for v in ex.get("violations") or []:
            check.report(v["key"], "%s; arguments %s" % (v["what"], v["args"]), {"function_key": v["key"], "args": v["args"], "what": v["what"], "shard": o["result"].get("id")})
        for s in (ex.get("samples") or [])[:2]:
            check.sample(s)
        check.extra["functions"] = ex.get("functions")
        check.extra["expression_evaluations"] = check.extra.get("expression_evaluations", 0) + ex.get("expression_evaluations", 0)
        check.extra["errors_returned"] = check.extra.get("errors_returned", 0) + ex.get("errors_returned", 0)
        check.extra["concurrent_calls"] = check.extra.get("concurrent_calls", 0) + ex.get("concurrent_calls", 0)
        for k, n in (ex.get("per_function") or {}).items():
            check.extra.setdefault("calls_per_function", {})[k] = check.extra.get("calls_per_function", {}).get(k, 0) + n
    for i in range(classes):
        check.nontrivial("class-%d" % i)
    check.extra["argument_classes"] = classes
    if total_calls < 1000:
        check.fail_broken("only %d function calls were made" % total_calls)
