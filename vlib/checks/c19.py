"""C19 - invalid input starts nothing; steps see the schema-normalised input."""
import copy
import json
import random

from .. import gen, harness, mon, ref, runfam
from ..core import Check, derive_seed
from ..model import Expr, In, Ref, Program, Step, InputSchema, OneOf


def gen_type(rng, depth, objects):
    r = rng.random()
    if depth >= 2:
        r = r * 0.62
    if r < 0.14:
        return "string"
    if r < 0.26:
        return ("string", {"min": rng.choice([None, 1, 2]), "max": rng.choice([None, 8, 20])})
    if r < 0.38:
        return "integer"
    if r < 0.48:
        lo = rng.choice([None, 0, 3, 10])
        return ("integer", {"min": lo, "max": (lo or 0) + rng.choice([5, 100]) if rng.random() < 0.7 else None})
    if r < 0.54:
        return "float"
    if r < 0.60:
        return "bool"
    if r < 0.63:
        return ("enum", rng.sample(["red", "green", "blue", "x", "y"], rng.randrange(1, 4)))
    if r < 0.66:
        return ("pattern",)
    if r < 0.76:
        return ("list", gen_type(rng, depth + 1, objects))
    if r < 0.84:
        return ("map", "string", gen_type(rng, depth + 1, objects))
    if r < 0.94:
        return ("object", "Obj%d_%d" % (depth, rng.randrange(1000)), gen_props(rng, depth + 1, objects))
    oid = "Shared%d" % len(objects)
    objects[oid] = {}  # reserve the id before generating nested types
    objects[oid] = gen_props(rng, depth + 1, objects)
    return ("ref", oid)


def gen_props(rng, depth, objects):
    props = {}
    for i in range(rng.randrange(1, 4 if depth else 6)):
        t = gen_type(rng, depth, objects)
        p = {"type": t}
        if rng.random() < 0.4:
            p["required"] = False
            if rng.random() < 0.6:
                try:
                    p["default"] = gen_value(rng, t, objects)
                except ValueError:
                    pass
        props["f%d" % i] = p
    return props


def gen_value(rng, t, objects):
    if t == "string":
        return rng.choice(["s", "hello", "x y", "007", "true"])
    if t == "integer":
        return rng.choice([0, 1, -3, 42, 10 ** 12])
    if t == "float":
        return rng.choice([0.5, -2.25, 3.0, 1e10])
    if t == "bool":
        return rng.random() < 0.5
    if t[0] == "string":
        n = max(t[1].get("min") or 0, 1)
        m = t[1].get("max") or 6
        return "a" * min(max(n, 2), m)
    if t[0] == "integer":
        lo = t[1].get("min")
        hi = t[1].get("max")
        if lo is None and hi is None:
            return 7
        if lo is None:
            return hi - 1
        if hi is None:
            return lo + 1
        return rng.randrange(lo, hi + 1)
    if t[0] == "enum":
        return rng.choice(t[1])
    if t[0] == "pattern":
        return rng.choice(["^a+$", "[0-9]{2,3}", "x|y"])
    if t[0] == "list":
        return [gen_value(rng, t[1], objects) for _ in range(rng.randrange(0, 3))]
    if t[0] == "map":
        return {"k%d" % i: gen_value(rng, t[2], objects) for i in range(rng.randrange(0, 3))}
    if t[0] == "object":
        return gen_doc(rng, t[2], objects)
    if t[0] == "ref":
        return gen_doc(rng, objects[t[1]], objects)
    raise ValueError(t)


def gen_doc(rng, props, objects):
    d = {}
    for k, p in props.items():
        if p.get("required", True) or rng.random() < 0.5:
            d[k] = gen_value(rng, p["type"], objects)
    return d


def invalidations(rng, schema, doc):
    """Single-point invalidations of a valid document: (kind, document)."""
    out = []

    def walk(props, d, path):
        for k, p in props.items():
            t = p["type"]
            here = path + [k]
            if p.get("required", True) and k in d:
                out.append(("missing-required", delete(doc, here)))
            # an explicit null, for a field that is present and for an optional one that is left out
            out.append(("null-value:%s" % ("present" if k in d else "omitted-optional"), put(doc, here, None)))
            if k in d:
                bad = wrong_value(t)
                if isinstance(t, tuple) and t[0] in ("object", "ref"):
                    sub = t[2] if t[0] == "object" else schema.objects[t[1]]
                    if len(sub) == 1:
                        bad = []  # the schema language lets an object with a single property be written as that property's value
                for kind, v in bad:
                    out.append((kind, put(doc, here, v)))
                if isinstance(t, tuple) and t[0] == "object":
                    walk(t[2], d[k], here)
                elif isinstance(t, tuple) and t[0] == "ref":
                    walk(schema.objects[t[1]], d[k], here)
        out.append(("unknown-field", put(doc, path + ["zz_unknown"], "x")))

    def wrong_value(t):
        base = t if isinstance(t, str) else t[0]
        if base == "string":
            r = [("wrong-type:map-for-string", {"a": "b"}), ("wrong-type:list-for-string", ["a"])]
            if not isinstance(t, str):
                if t[1].get("max") is not None:
                    r.append(("out-of-range:string-too-long", "z" * (t[1]["max"] + 1)))
                if t[1].get("min"):
                    r.append(("out-of-range:string-too-short", ""))
            return r
        if base == "integer":
            r = [("wrong-type:text-for-int", "abc"), ("wrong-type:list-for-int", [1]), ("wrong-type:fraction-for-int", "1.5x")]
            if not isinstance(t, str):
                if t[1].get("min") is not None:
                    r.append(("out-of-range:int-below-min", t[1]["min"] - 1))
                if t[1].get("max") is not None:
                    r.append(("out-of-range:int-above-max", t[1]["max"] + 1))
            return r
        if base == "float":
            return [("wrong-type:text-for-float", "abc"), ("wrong-type:map-for-float", {"a": 1})]
        if base == "bool":
            return [("wrong-type:text-for-bool", "maybe"), ("wrong-type:list-for-bool", [True])]
        if base == "enum":
            return [("wrong-enum", "not-a-member"), ("wrong-type:list-for-enum", ["red"])]
        if base == "pattern":
            return [("wrong-type:invalid-pattern", "(unclosed"), ("wrong-type:list-for-pattern", ["a"])]
        if base == "list":
            return [("wrong-type:scalar-for-list", "scalar"), ("wrong-type:map-for-list", {"a": 1})]
        if base == "map":
            return [("wrong-type:scalar-for-map", "scalar"), ("wrong-type:list-for-map", ["a"])]
        if base in ("object", "ref"):
            return [("wrong-type:scalar-for-object", "scalar"), ("wrong-type:list-for-object", ["a"])]
        return []

    def put(d, path, v):
        d = copy.deepcopy(d)
        cur = d
        for p in path[:-1]:
            cur = cur[p]
        cur[path[-1]] = v
        return d

    def delete(d, path):
        d = copy.deepcopy(d)
        cur = d
        for p in path[:-1]:
            cur = cur[p]
        del cur[path[-1]]
        return d

    walk(schema.props, doc, [])
    return out


def whole_document_invalidations(schema, doc):
    """The document as a whole is not an object. (An object with a single property may be written as that property's value,
    so scalar documents are only used for schemas with several properties.)"""
    out = [("document:null", None), ("document:list", [doc])]
    if len(schema.props) > 1:
        out += [("document:scalar", "text"), ("document:number", 7)]
    return out


def as_yaml_reader_sees(d):
    """The engine's YAML reader hands every scalar over as its text: an explicit null arrives as the string "null"."""
    if d is None:
        return "null"
    if isinstance(d, dict):
        return {k: as_yaml_reader_sees(v) for k, v in d.items()}
    if isinstance(d, list):
        return [as_yaml_reader_sees(v) for v in d]
    return d


LEAF_FIELD = {"string": "tag", "integer": "n", "float": "f", "bool": "b"}


def build_program(schema, per_field=False):
    """Two steps that both receive the whole input through their `any` field, typed leaves through typed fields, and outputs echoing the input."""
    steps = [gen.plugin_step("e1", "lit", extra_input={"a": Expr(In())}), gen.plugin_step("e2", "lit", extra_input={"a": Expr(In())})]
    used = set()
    for k, p in schema.props.items():
        t = p["type"]
        base = t if isinstance(t, str) else t[0]
        if base in LEAF_FIELD and base not in used and p.get("required", True):
            used.add(base)
            steps[1].fields["input"][LEAF_FIELD[base]] = Expr(In(k))
    outs = {"success": {"all": Expr(In()), "e1": Expr(Ref("e1", "outputs", "success", "a")), "e2": Expr(Ref("e2", "outputs", "success"))}}
    if per_field:
        # the second step and a further output member refer to the fields one by one (those that are always there)
        keys = [k for k, p in schema.props.items() if p.get("required", True) or "default" in p]
        if keys:
            steps[1].fields["input"]["a"] = {k: Expr(In(k)) for k in keys}
            # (an output member inferred from a field whose type contains a reference to a shared object is refused by
            # preparation - the inferred scope lacks the object; such fields are only handed to the step)
            outs["success"]["fields"] = {k: Expr(In(k)) for k in keys if "'ref'" not in repr(schema.props[k]["type"])}
            if not outs["success"]["fields"]:
                del outs["success"]["fields"]
    return Program(steps, outs, schema)


def run(check):
    n = check.pick(60, 600)
    check.rule = ("generated input schemas (strings with length bounds, integers with ranges, floats, bools, string enums, lists, string-keyed maps, nested inline objects, "
                  "references to shared objects, optional fields with and without defaults) x one valid document x every single-point invalidation (missing required, "
                  "wrong type per type, out of range, wrong enum member, unknown field at every nesting level, explicit null for present and omitted fields, documents "
                  "that are not objects) plus input documents written as YAML text (block scalars with every chomping mode, quoting, flow style); each document is run through Execute (Go values) and "
                  "through engine.Workflow.Run (YAML bytes); also loops fed from an input list and input objects handed over as one-of options, with the input referred to again later, and sequences of trees through one step registry whose sub-workflow files share a name but differ in input schema (result in the sequence = result alone); oracles: invalid => error and no deployment for execution (deploy counter), valid => the whole input seen by "
                  "two different steps and the workflow output equal the reference normalisation (typed values, defaults filled) and equal each other; "
                  "distinct = (schema, invalidation kind, entry point)")
    check.assumptions = ["documents are either clearly valid or clearly invalid with respect to the declared schema (no convertible border cases such as \"5\" for an integer)"]
    items, idx = [], 0
    for i in range(n):
        rng = random.Random(derive_seed(check.seed, "c19", i))
        objects = {}
        props = gen_props(rng, 0, objects)
        schema = InputSchema(props, objects=objects)
        prog = build_program(schema, per_field=(i % 2 == 0))
        per_keys = [k for k, p in schema.props.items() if p.get("required", True) or "default" in p] if i % 2 == 0 else None
        doc = gen_doc(rng, props, objects)
        try:
            norm = ref.normalise_input(schema, doc)
        except ref.InvalidInput as e:
            continue
        docs = [("valid", doc)]
        inv = invalidations(rng, schema, doc)
        if check.quick():
            rng.shuffle(inv)
            inv = inv[:8]
        docs += inv
        docs += whole_document_invalidations(schema, doc)
        if len(schema.props) == 1:
            # an object with a single property may be written as that property's value: such a document is valid
            (k1, p1), = schema.props.items()
            if k1 in doc and not isinstance(doc[k1], (list, dict)) and doc[k1] is not None:
                docs.append(("valid", doc[k1]))
        scripts = gen.make_scripts(prog.steps, {})
        for kind, d in docs:
            for entry in ("execute", "engine"):
                seen_d = as_yaml_reader_sees(d) if entry == "engine" else d
                if entry == "engine" and seen_d == "null" and len(schema.props) == 1:
                    continue  # the text "null" as the value of the only property
                try:
                    expected = ref.normalise_input(schema, seen_d)
                    valid = True
                except ref.InvalidInput:
                    expected, valid = None, False
                if kind != "valid" and valid and not kind.startswith("null-value"):
                    continue  # the mutation happened to stay valid (e.g. deleting an optional field): not an invalidation
                cid = "c19-%05d" % idx
                idx += 1
                if entry == "execute":
                    case = {"id": cid, "files": prog.files(), "scripts": scripts, "runs": [{"input": d}]}
                else:
                    case = {"id": cid, "mode": "engine", "files": prog.files(), "scripts": scripts, "runs": [], "extra": {"engine": {"input_yaml": json.dumps(d)}}}
                items.append((case, {"schema": i, "kind": kind, "entry": entry, "valid": valid, "expected": expected, "doc": d, "per_field": per_keys if isinstance(seen_d, dict) else None,
                                     "out_fields": [k for k in (per_keys or []) if "'ref'" not in repr(schema.props[k]["type"])]}))
    # input documents written as YAML text (block scalars, quoting, flow style): the value a string field has is the one the
    # YAML text denotes, trailing line breaks included
    ysch = InputSchema({"s": {"type": ("string", {"min": None, "max": 5})}, "t": {"type": "string", "required": False, "default": "dflt"}, "l": {"type": ("list", "string"), "required": False}})
    yprog = build_program(ysch)
    yscripts = gen.make_scripts(yprog.steps, {})
    YDOCS = [("literal-clip", "s: |\n  ab\n", {"s": "ab\n"}), ("literal-strip", "s: |-\n  ab\n", {"s": "ab"}), ("literal-keep", "s: |+\n  ab\n\nt: x\n", {"s": "ab\n\n", "t": "x"}),
             ("folded", "s: >\n  a\n  b\n", {"s": "a b\n"}), ("folded-strip", "s: >-\n  a\n  b\n", {"s": "a b"}), ("double-quoted-escape", 's: "ab\\n"\n', {"s": "ab\n"}),
             ("single-quoted", "s: 'a''b'\n", {"s": "a'b"}), ("plain-multiword", "s: a b\nt: 'x: y'\n", {"s": "a b", "t": "x: y"}), ("flow-map", "{s: ab, l: [x, 'y z']}\n", {"s": "ab", "l": ["x", "y z"]}),
             ("literal-in-list", "s: ab\nl:\n  - |\n    one\n  - two\n", {"s": "ab", "l": ["one\n", "two"]}),
             ("literal-too-long", "s: |\n  12345\n", None), ("folded-too-long", "s: >\n  123\n  4\n", None), ("keep-too-long", "s: |+\n  1234\n\n", None), ("exactly-max", "s: |-\n  12345\n", {"s": "12345"})]
    for name, text, doc in YDOCS:
        cid = "c19-%05d" % idx
        idx += 1
        expected = None
        if doc is not None:
            expected = ref.normalise_input(ysch, doc)
        case = {"id": cid, "mode": "engine", "files": yprog.files(), "scripts": yscripts, "runs": [], "extra": {"engine": {"input_yaml": text}}}
        items.append((case, {"schema": -1, "kind": "yaml-text:" + name if doc is None else "valid", "entry": "engine", "valid": doc is not None, "expected": expected, "doc": text}))
    # a loop fed directly from a list of the input, whose sub-workflow normalises an item differently (it has a further optional
    # field with a default); the input is referred to again after the loop got its items: it must still be the parent's own
    # normalised document
    for j in range(check.pick(6, 40)):
        rng = random.Random(derive_seed(check.seed, "c19-loop", j))
        lsch = InputSchema({"items": {"type": ("list", ("object", "Item", {"tag": {"type": "string"}}))}, "name": {"type": "string", "required": False, "default": "dflt"}})
        sub = Program([gen.plugin_step("w0", Expr(In("tag")), src="sub_w0")], {"success": {"t": gen.tagref("w0"), "note": Expr(In("note"))}},
                      InputSchema({"tag": {"type": "string"}, "note": {"type": "string", "required": False, "default": "n/a"}}, root="Item"), name="sub.yaml")
        loop = Step("loop", "foreach", sub=sub, items=Expr(In("items")), parallelism=rng.choice([1, 2]))
        after = gen.plugin_step("e1", "lit", extra_input={"a": Expr(In())}, wait_for=Expr(Ref("loop", "outputs", "success")))
        e2 = gen.plugin_step("e2", "lit", extra_input={"a": Expr(In())})
        lprog = Program([loop, after, e2], {"success": {"all": Expr(In()), "d": Expr(Ref("loop", "outputs", "success", "data")), "e1": Expr(Ref("e1", "outputs", "success", "a")), "e2": Expr(Ref("e2", "outputs", "success"))}}, lsch)
        ldoc = {"items": [{"tag": "i%d" % q} for q in range(rng.choice([1, 2, 4]))]}
        cid = "c19-%05d" % idx
        idx += 1
        entry = "execute" if j % 2 else "engine"
        lscripts = gen.make_scripts(lprog.steps, {})
        if entry == "execute":
            case = {"id": cid, "files": lprog.files(), "scripts": lscripts, "runs": [{"input": ldoc}]}
        else:
            case = {"id": cid, "mode": "engine", "files": lprog.files(), "scripts": lscripts, "runs": [], "extra": {"engine": {"input_yaml": json.dumps(ldoc)}}}
        items.append((case, {"schema": -2, "kind": "valid", "entry": entry, "valid": True, "expected": ref.normalise_input(lsch, ldoc), "doc": ldoc}))
    # whole objects of the input handed to a step as the chosen option of a one-of (the engine adds the discriminator to what it
    # hands over); the same objects are referred to again later in the run: they must still be the normalised input
    for j in range(check.pick(8, 40)):
        rng = random.Random(derive_seed(check.seed, "c19-oneof", j))
        osch = InputSchema({"target": {"type": ("object", "Target", {"host": {"type": "string"}, "port": {"type": "integer", "required": False, "default": 22}})},
                            "extra": {"type": ("map", "string", "string"), "required": False}, "name": {"type": "string", "required": False, "default": "dflt"}})
        opts = {"ssh": Expr(In("target"))}
        if j % 3 == 1:
            opts = {"whole": Expr(In())}
        first = gen.plugin_step("c", "lit", extra_input={"a": OneOf("kind", opts) if j % 3 != 2 else {"inner": [OneOf("kind", opts)]}})
        e1 = gen.plugin_step("e1", "lit", extra_input={"a": Expr(In())}, wait_for=Expr(Ref("c", "outputs", "success")))
        e2 = gen.plugin_step("e2", "lit", extra_input={"a": Expr(In())})
        steps = [first, e1, e2]
        rng.shuffle(steps)
        oprog = Program(steps, {"success": {"all": Expr(In()), "c": Expr(Ref("c", "outputs", "success", "a")), "e1": Expr(Ref("e1", "outputs", "success", "a")), "e2": Expr(Ref("e2", "outputs", "success"))}}, osch)
        odoc = {"target": {"host": "h%d" % j}}
        if j % 2:
            odoc["extra"] = {"k": "v"}
        for entry in ("execute", "engine"):
            cid = "c19-%05d" % idx
            idx += 1
            oscripts = gen.make_scripts(oprog.steps, {})
            if entry == "execute":
                case = {"id": cid, "files": oprog.files(), "scripts": oscripts, "runs": [{"input": odoc}]}
            else:
                case = {"id": cid, "mode": "engine", "files": oprog.files(), "scripts": oscripts, "runs": [], "extra": {"engine": {"input_yaml": json.dumps(odoc)}}}
            items.append((case, {"schema": -3, "kind": "valid", "entry": entry, "valid": True, "expected": ref.normalise_input(osch, odoc), "doc": odoc}))
    # an input schema all of whose fields have defaults (integers, floats, lists, strings with escapes) and documents that leave
    # out all or some of them - also the empty document, which is what the command line passes without an input file;
    # the values are also computed with, so their types matter
    from ..model import Call, Bin, Lit
    dsch = InputSchema({"n": {"type": "integer", "required": False, "default": 20}, "f": {"type": "float", "required": False, "default": 1.5},
                        "l": {"type": ("list", "integer"), "required": False, "default": [1, 2]}, "s": {"type": "string", "required": False, "default": "C:\\temp \"q\"\n\tend \u00e9"},
                        "b": {"type": "bool", "required": False, "default": True}, "m": {"type": ("map", "string", "integer"), "required": False, "default": {"k": 3}}})
    for j, ddoc in enumerate([{}, {"n": 5}, {"s": "given"}, {"l": [], "m": {}}, {"n": 0, "f": 0.0, "b": False, "s": ""}]):
        e1 = gen.plugin_step("e1", "lit", extra_input={"a": Expr(In()), "n": Expr(Bin("+", In("n"), Lit(1)))})
        e2 = gen.plugin_step("e2", Expr(Call("intToString", In("n"))), extra_input={"a": Expr(In()), "f": Expr(In("f"))})
        dprog = Program([e1, e2], {"success": {"all": Expr(In()), "e1": Expr(Ref("e1", "outputs", "success", "a")), "e2": Expr(Ref("e2", "outputs", "success")), "sum": Expr(Bin("+", In("n"), Lit(1))), "s": Expr(In("s"))}}, dsch)
        for entry in ("execute", "engine"):
            cid = "c19-%05d" % idx
            idx += 1
            dscripts = gen.make_scripts(dprog.steps, {})
            if entry == "execute":
                case = {"id": cid, "files": dprog.files(), "scripts": dscripts, "runs": [{"input": ddoc}]}
            else:
                case = {"id": cid, "mode": "engine", "files": dprog.files(), "scripts": dscripts, "runs": [], "extra": {"engine": {"input_yaml": json.dumps(ddoc)}}}
            items.append((case, {"schema": -4, "kind": "valid", "entry": entry, "valid": True, "expected": ref.normalise_input(dsch, ddoc), "doc": ddoc, "sum": ddoc.get("n", 20) + 1}))
    # one prepared workflow run several times with different valid inputs, the input referred to inside list literals (flat and
    # nested, in the output, in a step input and in the items of a loop): every run sees its own input
    multi = []
    for j in range(check.pick(6, 30)):
        msch = InputSchema({"tag": {"type": "string"}, "name": {"type": "string", "required": False, "default": "dflt"}, "ms": {"type": "integer", "required": False, "default": 4}})
        e1 = gen.plugin_step("e1", "lit", extra_input={"l": [Expr(In("tag")), "const", Expr(In("name"))], "a": {"nested": [[Expr(In("ms"))], Expr(In("tag"))]}})
        sub = Program([gen.plugin_step("w0", Expr(In("tag")), src="sub_w0")], {"success": {"t": gen.tagref("w0")}}, gen.SUB_INPUT, name="sub.yaml")
        loop = Step("loop", "foreach", sub=sub, items=[{"tag": Expr(In("tag"))}, {"tag": Expr(In("name"))}])
        mprog = Program([e1, loop], {"success": {"flat": [Expr(In("name")), Expr(In("tag")), "k"], "ints": [Expr(In("ms")), Expr(In("ms"))], "d": Expr(Ref("loop", "outputs", "success", "data")), "e1": Expr(Ref("e1", "outputs", "success"))}}, msch)
        docs = [{"tag": "r0_%d" % j, "name": "first", "ms": 3}, {"tag": "r1_%d" % j}, {"tag": "r2_%d" % j, "name": "third", "ms": 5}, {"tag": "r3_%d" % j, "ms": 9}][: 3 + j % 2]
        case = {"id": "c19-m%04d" % j, "files": mprog.files(), "scripts": gen.make_scripts(mprog.steps, {}), "runs": [dict({"input": d, "tag": "r%d" % q}, **({"parallel": True} if j % 3 == 2 else {})) for q, d in enumerate(docs)]}
        multi.append((case, docs))
    # one step registry (one engine instance) used for several workflow trees whose sub-workflow file has the same name but
    # another input schema: the items of each tree's loop are normalised by that tree's own sub-workflow schema. Each tree is
    # also run alone; its result in the sequence must be the same
    seq_cases = []
    def tree(variant):
        props = {"tag": {"type": "string"}}
        outs = {"t": gen.tagref("w0")}
        if variant == "default-added":
            props["note"] = {"type": "string", "required": False, "default": "n/a"}
            outs["note"] = Expr(In("note"))
        elif variant == "other-default":
            props["note"] = {"type": "string", "required": False, "default": "other"}
            outs["note"] = Expr(In("note"))
        elif variant == "narrower":
            props["tag"] = {"type": ("string", {"min": None, "max": 2})}
        sub = Program([gen.plugin_step("w0", Expr(In("tag")), src="sub_w0")], {"success": outs}, InputSchema(props, root="Item"), name="sub.yaml")
        loop = Step("loop", "foreach", sub=sub, items=Expr(In("items")))
        psch = InputSchema({"items": {"type": ("list", ("object", "Item", {"tag": {"type": "string"}}))}})
        return Program([loop], {"success": {"d": Expr(Ref("loop", "outputs", "success", "data"))}, "failed": {"e": Expr(Ref("loop", "failed", "error"))}}, psch)
    VARIANTS = ["plain", "default-added", "other-default", "narrower"]
    sdoc = {"items": [{"tag": "i0"}, {"tag": "long-tag"}]}
    for a in VARIANTS:
        seq_cases.append(("alone", (a,), {"id": "c19-s%03d" % len(seq_cases), "mode": "seq", "files": {}, "scripts": gen.make_scripts(tree(a).steps, {}), "runs": [],
                                          "extra": {"sequence": [{"files": tree(a).files(), "input": sdoc}]}, "no_events": True}))
    for a in VARIANTS:
        for b in VARIANTS:
            if a != b:
                for order in ((a, b), (a, b, a)):
                    seq_cases.append(("sequence", order, {"id": "c19-s%03d" % len(seq_cases), "mode": "seq", "files": {}, "scripts": gen.make_scripts(tree(a).steps, {}), "runs": [],
                                                          "extra": {"sequence": [{"files": tree(v).files(), "input": sdoc} for v in order]}, "no_events": True}))
    with harness.Runner() as rn:
        out = rn.run_cases([c for c, _m in items], per_case_timeout=60)
        sout = rn.run_cases([c for _k, _o, c in seq_cases], per_case_timeout=60)
        mout = rn.run_cases([c for c, _d in multi], per_case_timeout=60)
    for case, docs in multi:
        o = mout.get(case["id"], {})
        check.count()
        res = o.get("result") or {}
        runs = {r.get("tag"): r for r in res.get("runs") or []}
        if "death" in o or res.get("prepare_err") or res.get("parse_err") or len(runs) != len(docs):
            check.inconclusive_case(case["id"], str(o.get("death", {}).get("key") or res.get("prepare_err") or "runs missing"))
            continue
        for q, d in enumerate(docs):
            r = runs.get("r%d" % q) or {}
            data = ref.denum(r.get("data")) or {}
            name, ms = d.get("name", "dflt"), d.get("ms", 4)
            want = {"flat": [name, d["tag"], "k"], "ints": [ms, ms], "d": [{"t": "sub_w0(%s)" % d["tag"]}, {"t": "sub_w0(%s)" % name}]}
            got = {k: data.get(k) for k in want}
            e1l = ((data.get("e1") or {}).get("l"), ((data.get("e1") or {}).get("a") or {}).get("nested"))
            if r.get("out_id") != "success" or got != want or e1l != ([d["tag"], "const", name], [[ms], d["tag"]]):
                check.report("input@another-run's-input", "one prepared workflow run with the inputs %s: run %d returned %r / %s; expected %r and the step lists %r" % (
                    docs, q, r.get("data"), (r.get("err") or "")[:150], want, ([d["tag"], "const", name], [[ms], d["tag"]])), {"case": case})
                break
        check.nontrivial("multi-run|%d" % len(docs))
    alone = {}
    for kind, order, case in seq_cases:
        o = sout.get(case["id"], {})
        check.count()
        runs = (o.get("result") or {}).get("runs") or []
        if "death" in o or len(runs) != len(order):
            check.inconclusive_case(case["id"], str(o.get("death", {}).get("key") or "sequence incomplete"))
            continue
        got = [(r.get("out_id"), ref.denum(r.get("data")), bool(r.get("err"))) for r in runs]
        if kind == "alone":
            alone[order[0]] = got[0]
            if order[0] in ("default-added", "other-default"):
                want = "n/a" if order[0] == "default-added" else "other"
                notes = [(x or {}).get("note") for x in ((got[0][1] or {}).get("d") or [])] if got[0][0] == "success" else None
                if notes != [want, want]:
                    check.report("input@loop-item-not-normalised-by-sub-workflow-schema", "loop over $.input.items, sub-workflow input declares `note` with default %r: expected both item runs to see it, got %r" % (
                        want, runs[0].get("data") if got[0][0] == "success" else runs[0]), {"case": case})
            continue
        for pos, v in enumerate(order):
            if v in alone and got[pos] != alone[v]:
                check.report("input@item-normalised-by-another-tree's-schema", "trees %s through one step registry: the tree at position %d (sub-workflow input: %s) returned %r, alone it returns %r" % (
                    list(order), pos, v, got[pos], alone[v]), {"case": case})
        check.nontrivial("seq|%s" % "|".join(order))
    stats = {"valid_runs": 0, "invalid_runs": 0, "invalid_refused": 0, "kinds": {}, "rejected_programs": 0}
    for case, m in items:
        o = out.get(case["id"], {})
        check.count()
        if "death" in o:
            d = o["death"]
            check.inconclusive_case(case["id"], "%s %s" % (d["kind"], d["key"]))
            continue
        res = o.get("result") or {}
        if res.get("parse_err") or res.get("prepare_err"):
            stats["rejected_programs"] += 1
            check.extra.setdefault("rejected_samples", []).append((res.get("parse_err") or res.get("prepare_err"))[:200])
            continue
        run = (res.get("runs") or [{}])[0]
        ev = res.get("events") or []
        runtime_deploys = [e for e in ev if e["kind"] == "deploy-call" and mon._nth(e) >= 2]
        key_suffix = "%s:%s" % (m["kind"].split(":")[0], m["entry"])
        if not m["valid"]:
            stats["invalid_runs"] += 1
            stats["kinds"][m["kind"]] = stats["kinds"].get(m["kind"], 0) + 1
            if not run.get("err"):
                check.report("input@accepted-invalid:" + m["kind"], "schema %d: invalid document (%s) was accepted via %s and produced %r; document %s" % (m["schema"], m["kind"], m["entry"], run.get("out_id"), json.dumps(m["doc"])[:300]),
                             {"case": case, "kind": m["kind"]})
            else:
                stats["invalid_refused"] += 1
            if runtime_deploys:
                check.report("input@deployed-before-refusal:" + key_suffix, "schema %d: %d plugin deployment(s) for execution although the input is invalid (%s)" % (m["schema"], len(runtime_deploys), m["kind"]), {"case": case})
            check.nontrivial("%d|%s|%s" % (m["schema"], m["kind"], m["entry"]))
            continue
        stats["valid_runs"] += 1
        if run.get("err"):
            check.report("input@refused-valid:" + m["entry"], "schema %d: valid document refused via %s: %s; document %s" % (m["schema"], m["entry"], run["err"][:200], json.dumps(m["doc"])[:300]), {"case": case})
            continue
        data = ref.denum(run.get("data"))
        exp = m["expected"]
        mm = ref.match(exp, (data or {}).get("all"))
        if mm:
            check.report("input@normalisation:output:" + m["entry"], "schema %d: $.input in the workflow output differs from the normalised document: %s" % (m["schema"], mm), {"case": case, "expected": exp, "got": data})
        seen = {}
        for e in ev:
            if e["kind"] == "exec-start" and e["src"] in ("e1", "e2"):
                seen[e["src"]] = ref.denum((e.get("data") or {}).get("raw") or {}).get("a")
        if "sum" in m:
            got_sum = (data or {}).get("sum")
            got_n = [ref.denum((e.get("data") or {}).get("raw") or {}).get("n") for e in ev if e["kind"] == "exec-start" and e["src"] == "e1"]
            if got_sum != m["sum"] or isinstance(got_sum, float) or got_n[:1] != [m["sum"]] or (data or {}).get("s") != exp.get("s"):
                check.report("input@normalisation:computed:" + m["entry"], "all-defaults schema, document %r: $.input.n + 1 gave %r in the output and %r in the step input (expected the integer %r); s = %r (expected %r)" % (
                    m["doc"], got_sum, got_n[:1], m["sum"], (data or {}).get("s"), exp.get("s")), {"case": case, "expected": exp, "got": data})
        pk = m.get("per_field")
        if pk:
            fkeys = m.get("out_fields") or []
            mm = ref.match({k: exp[k] for k in fkeys if k in exp}, (data or {}).get("fields") or {}) if fkeys else None
            if mm:
                check.report("input@normalisation:output-field:" + m["entry"], "schema %d: fields of $.input referred to one by one in the workflow output differ from the normalised document: %s" % (m["schema"], mm), {"case": case, "expected": exp, "got": data})
        for src, v in seen.items():
            if pk and src == "e2":
                mm = ref.match({k: exp[k] for k in pk if k in exp}, v)
                if mm:
                    check.report("input@normalisation:step-field:" + m["entry"], "schema %d: step e2, given the fields of $.input one by one, received something else than the normalised document: %s" % (m["schema"], mm), {"case": case, "expected": exp, "got": v})
                continue
            mm = ref.match(exp, v)
            if mm:
                check.report("input@normalisation:step:" + m["entry"], "schema %d: step %s received an input that differs from the normalised document: %s" % (m["schema"], src, mm), {"case": case, "expected": exp, "got": v})
        if len(seen) == 2 and seen.get("e1") != seen.get("e2") and not pk:
            check.report("input@steps-disagree:" + m["entry"], "schema %d: the two steps saw different inputs: %r vs %r" % (m["schema"], seen.get("e1"), seen.get("e2")), {"case": case})
        check.nontrivial("%d|valid|%s" % (m["schema"], m["entry"]))
        if len(check.samples) < 3 and exp != m["doc"]:
            check.sample({"schema": m["schema"], "entry": m["entry"], "document": m["doc"], "normalised_as_seen_by_steps": seen.get("e1")})
    check.extra.update(stats)
    if stats["valid_runs"] < 10 or stats["invalid_runs"] < 10:
        check.fail_broken("too few runs: %s" % stats)
    if stats["rejected_programs"] > len(items) * 0.2:
        check.fail_broken("too many rejected programs: %s" % check.extra.get("rejected_samples", [])[:3])
