"""C11 - parsing any files yields a workflow or an error, never a crash or endless loop."""
import copy
import random

from .. import gen, harness
from ..core import Check, derive_seed
from ..model import (Expr, In, Ref, Program, Step, OneOf, Opt, OrDisabled, RawYAML, yaml_flow, step_tree, InputSchema)

SHAPES = [
    "x", '""', "null", "~", "[]", "{}", "[1, 2]", "{k: v}", "{a: {b: [c, {d: e}]}}", "12", "-1", "1.5e3", "true", "0x1F", ".inf", "'quoted'",
    "&anc x", "*nope", "{<<: {k: v}}", "{[1, 2]: x}", "{? {a: b} : c}", "{1: 2}", "{null: x}", "[[[[[[]]]]]]",
    "{? : v}", "{? : {a: b}, k: v}", "{: v}", "{~: v, k: w}", "[{? : v}]", '{"": v}',
    '!expr "$"', '!expr "$.input"', '!expr "$.steps"', '!expr "$.steps.a"', '!expr "$.steps.a.outputs"', '!expr "$[\"input\"]"', '!expr "$.nosuch"', '!soft-optional "$"', '!ordisabled "$"',
    "!expr x", "!expr [1]", "!expr {a: b}", '!expr ""', '!expr "0!"', '!expr "$."', '!expr "$.steps"', '!expr "$.input.tag["', '!expr "((("', '!expr "1 +"', '!expr "f(,)"',
    '!expr "$.input.tag.x.y"', '!expr "$.steps.a"', '!expr "$[0]"', '!expr "\\"unterminated"', '!expr "$.input.tag == "', '!expr "!"', '!expr "-"', '!expr "1/0"', '!expr "$..a"',
    "!oneof x", "!oneof {}", "!oneof {discriminator: d}", "!oneof {one_of: {}}", "!oneof {discriminator: d, one_of: x}", '!oneof {discriminator: "", one_of: {}}',
    "!oneof {discriminator: d, one_of: {}}", '!oneof {discriminator: [1], one_of: {a: !expr "$.input"}}', '!oneof {discriminator: d, one_of: {a: x, b: [1]}}',
    '!oneof {discriminator: d, one_of: {a: !oneof {discriminator: e, one_of: {}}}}', "!oneof [a, b]",
    "!oneof {discriminator: d, one_of: [a, b]}", "!oneof {discriminator: d, one_of: []}", "!oneof {discriminator: d, one_of: [{a: b}]}", "!oneof {discriminator: {a: b}, one_of: {}}",
    "!oneof {discriminator: d, one_of: null}", "!oneof {discriminator: null, one_of: {a: {}}}", "!oneof [[a]]", "!oneof {discriminator: d, one_of: {a: null}}", "!oneof {discriminator: d, one_of: {1: {}}}",
    "!ordisabled x", "!ordisabled [1]", '!ordisabled "$.steps.a.outputs"', '!ordisabled "$.steps"', '!ordisabled "steps.a.outputs.success"', '!ordisabled ""', '!ordisabled "$.input.tag"',
    '!soft-optional "0!"', '!wait-optional "$.steps.a.outputs.success!"', '!soft-optional "((("', '!wait-optional "1 +"', '!ordisabled "0!"', '!oneof {discriminator: d, one_of: {a: !expr "0!"}}',
    "!soft-optional [1]", "!wait-optional {}", '!soft-optional "$.x("', '!wait-optional ""', '!soft-optional "$.steps.a.outputs.success"', "!wait-optional x",
    "!oneof {discriminator: d, one_of: {a: {l: []}}}", "!oneof {discriminator: d, one_of: {a: {m: {}}, b: {l: [[]]}}}", '!oneof {discriminator: d, one_of: {a: {l: [], t: !expr "$.input.tag"}}}',
    '!oneof {discriminator: d, one_of: {a: !soft-optional "$.steps.a.outputs.success", b: !wait-optional "$.steps.a.outputs.error"}}',
    "!foo x", "!!binary x", "!!int x", "!!map x", "!!seq {a: b}", "!!str [1]", "! x",
]


def doc_tree(prog):
    d = {"version": prog.version, "input": prog.input_schema.to_tree(), "steps": {s.name: step_tree(s) for s in prog.steps}, "outputs": dict(prog.outputs)}
    return d


def paths(t, prefix=(), depth=0, maxdepth=7):
    out = []
    if isinstance(t, dict) and depth < maxdepth:
        for k, v in t.items():
            out.append(prefix + (k,))
            out += paths(v, prefix + (k,), depth + 1, maxdepth)
    elif isinstance(t, list) and depth < maxdepth:
        for i, v in enumerate(t):
            out.append(prefix + (i,))
            out += paths(v, prefix + (i,), depth + 1, maxdepth)
    return out


def set_path(t, path, value, remove=False):
    t = copy.deepcopy(t)
    cur = t
    for p in path[:-1]:
        cur = cur[p]
    if remove:
        if isinstance(cur, dict):
            del cur[path[-1]]
        else:
            cur.pop(path[-1])
    else:
        cur[path[-1]] = value
    return t


def seeds(check):
    rng = random.Random(derive_seed(check.seed, "c11-seeds"))
    out = []
    s, o = gen.shape_chain(rng, 2)
    out.append(("chain2", Program(s, o, gen.BASE_INPUT)))
    s, o = gen.shape_deploy_expr(rng)
    s[1].fields["enabled"] = Expr(In("flag"))
    s[1].fields["stop_if"] = Expr(Ref("a", "outputs", "error"))
    s[1].fields["wait_for"] = Expr(Ref("a", "outputs", "success"))
    s[1].fields["closure_wait_timeout"] = 100
    out.append(("allfields", Program(s, o, gen.BASE_INPUT)))
    s, o = gen.shape_foreach(rng, 1, 2)
    out.append(("foreach", Program(s, o, gen.BASE_INPUT)))
    a = gen.plugin_step("a", Expr(In("tag")), enabled=Expr(In("flag")))
    b = gen.plugin_step("b", Expr(In("tag")), extra_input={"a": {"x": Opt(Ref("a", "outputs", "success", "tag"), True), "y": [OneOf("kind", {"ra": Expr(Ref("a", "outputs", "success")), "rb": Expr(Ref("a", "disabled", "output"))})]}})
    out.append(("tags", Program([a, b], {"success": {"b": gen.tagref("b"), "od": OrDisabled(Ref("a", "outputs", "success"))}}, gen.BASE_INPUT)))
    p = Program([gen.plugin_step("a", Expr(In("tag")))], {"success": {"a": gen.tagref("a")}}, gen.BASE_INPUT,
                output_schema={"success": {"schema": {"root": "Out", "objects": {"Out": {"id": "Out", "properties": {"a": {"type": {"type_id": "string"}}}}}}}})
    out.append(("outschema", p))
    return out


def structural(check):
    """Every key of every seed document replaced by every YAML shape (sampled in the quick tier), and removed."""
    out = []
    for name, prog in seeds(check):
        tree = doc_tree(prog)
        files0 = prog.files()
        ps = paths(tree)
        rng = random.Random(derive_seed(check.seed, "c11-struct", name))
        for path in ps:
            shapes = SHAPES if not check.quick() else rng.sample(SHAPES, 6)
            for sh in shapes:
                t = set_path(tree, path, RawYAML(sh))
                files = dict(files0)
                files[prog.name] = yaml_flow(t) + "\n"
                out.append({"files": files, "what": "%s:%s<-%s" % (name, "/".join(map(str, path)), sh), "class": "shape:" + sh})
            t = set_path(tree, path, None, remove=True)
            files = dict(files0)
            files[prog.name] = yaml_flow(t) + "\n"
            out.append({"files": files, "what": "%s:remove %s" % (name, "/".join(map(str, path))), "class": "remove-key"})
        # every tagged shape (all tiers) as the value of a workflow output field and of a step input field
        if name == seeds(check)[0][0]:
            for sh in SHAPES:
                if not sh.startswith("!"):
                    continue
                for where, path in (("output", ("outputs", "success", "zz_extra")), ("step-input", ("steps", prog.steps[0].name, "input", "a"))):
                    try:
                        t = set_path(tree, path, RawYAML(sh))
                    except (KeyError, TypeError, IndexError):
                        continue
                    files = dict(files0)
                    files[prog.name] = yaml_flow(t) + "\n"
                    out.append({"files": files, "what": "%s:%s<-%s" % (name, where, sh), "class": "tagged-value@%s:%s" % (where, sh)})
        # the sub-workflow file itself corrupted / input documents
        if "sub.yaml" in files0:
            for sh in (SHAPES if not check.quick() else rng.sample(SHAPES, 10)):
                files = dict(files0)
                files["sub.yaml"] = "steps: %s\nversion: v0.2.0\ninput: {}\noutputs: {success: x}\n" % sh
                out.append({"files": files, "what": "%s:sub.yaml steps<-%s" % (name, sh), "class": "sub:" + sh})
    return out


SUB_TMPL = """version: v0.2.0
input: {root: Item, objects: {Item: {id: Item, properties: {tag: {type: {type_id: string}}}}}}
steps:
  loop: {kind: foreach, workflow: %s, items: [{tag: !expr "$.input.tag"}]}
outputs:
  success: {d: !expr "$.steps.loop.outputs.success.data"}
"""
LEAF = """version: v0.2.0
input: {root: Item, objects: {Item: {id: Item, properties: {tag: {type: {type_id: string}}}}}}
steps:
  w: {plugin: {src: leaf_w, deployment_type: scripted}, input: {tag: !expr "$.input.tag"}}
outputs:
  success: {t: !expr "$.steps.w.outputs.success.tag"}
"""


def subworkflow_cases(check):
    """Self- and mutually-referencing sub-workflows, nesting, sub-directories, missing files, directories, odd `kind`/`workflow` values."""
    out = []
    main = SUB_TMPL.replace("root: Item", "root: RootObject").replace("Item: {id: Item", "RootObject: {id: RootObject")

    def add(files, what, cls, expect=None, **eng):
        out.append({"files": files, "what": what, "class": cls, "expect": expect, "engine": eng})

    add({"workflow.yaml": main % "workflow.yaml"}, "main references itself", "recursion:self", "error")
    add({"workflow.yaml": main % "a.yaml", "a.yaml": SUB_TMPL % "a.yaml"}, "sub-workflow references itself", "recursion:sub-self", "error")
    add({"workflow.yaml": main % "a.yaml", "a.yaml": SUB_TMPL % "b.yaml", "b.yaml": SUB_TMPL % "a.yaml"}, "mutually referencing sub-workflows", "recursion:mutual", "error")
    add({"workflow.yaml": main % "a.yaml", "a.yaml": SUB_TMPL % "workflow.yaml"}, "sub-workflow references main", "recursion:via-main", "error")
    add({"workflow.yaml": main % "a.yaml", "a.yaml": SUB_TMPL % "b.yaml", "b.yaml": SUB_TMPL % "c.yaml", "c.yaml": LEAF}, "nesting depth 3", "nesting:3", "ok")
    add({"workflow.yaml": main % "sub/a.yaml", "sub/a.yaml": SUB_TMPL % "sub/b.yaml", "sub/b.yaml": LEAF}, "sub-workflows in a sub-directory", "subdir", "ok")
    add({"workflow.yaml": main % "sub/a.yaml", "sub/a.yaml": LEAF}, "sub-workflow in a sub-directory (leaf)", "subdir:leaf", "ok")
    add({"workflow.yaml": main % "./a.yaml", "a.yaml": LEAF}, "dot-relative sub-workflow path", "path:dot", "ok")
    add({"workflow.yaml": main % "missing.yaml"}, "missing sub-workflow", "missing", "error")
    add({"workflow.yaml": main % "a.yaml", "a.yaml": SUB_TMPL % "missing.yaml"}, "missing nested sub-workflow", "missing:nested", "error")
    add({"workflow.yaml": main % "adir"}, "directory instead of file", "directory", "error", mkdirs=["adir"])
    add({"workflow.yaml": main % "a.yaml", "a.yaml": ""}, "empty sub-workflow", "empty-sub", "error")
    add({"workflow.yaml": main % "../outside.yaml"}, "sub-workflow outside the context", "path:parent", "error")
    for kind in ("[1]", "{a: b}", "12", "null", "foreach ", "Foreach", '""'):
        add({"workflow.yaml": main.replace("kind: foreach", "kind: " + kind) % "a.yaml", "a.yaml": LEAF}, "kind: " + kind, "kind:" + kind, None)
    for wf in ("[1]", "{a: b}", "12", "null", '""', "!expr \"$.input.tag\""):
        add({"workflow.yaml": main.replace("workflow: %s", "workflow: " + wf.replace("%", "%%")), "a.yaml": LEAF}, "workflow: " + wf, "workflowfield:" + wf, "error")
    # wide trees: several loop steps of one file naming different sub-workflows, some of which have loops of their own;
    # every file of the tree must be found whatever order the loop steps are visited in (repeated: the order varies)
    def wide(names):
        head = main.split("steps:")[0]
        loops = "".join('  l%d: {kind: foreach, workflow: %s, items: [{tag: !expr "$.input.tag"}]}\n' % (i, n) for i, n in enumerate(names))
        outs = ", ".join('d%d: !expr "$.steps.l%d.outputs.success.data"' % (i, i) for i in range(len(names)))
        return head + "steps:\n" + loops + "outputs:\n  success: {" + outs + "}\n"
    reps = check.pick(10, 40)
    for rep in range(reps):
        add({"workflow.yaml": wide(["a.yaml", "b.yaml"]), "a.yaml": SUB_TMPL % "leaf.yaml", "b.yaml": LEAF, "leaf.yaml": LEAF}, "nested and plain sibling sub-workflows (rep %d)" % rep, "wide:nested+plain", "ok")
        add({"workflow.yaml": wide(["a.yaml", "b.yaml", "c.yaml", "d.yaml"]), "a.yaml": SUB_TMPL % "la.yaml", "b.yaml": LEAF, "c.yaml": SUB_TMPL % "lc.yaml", "d.yaml": LEAF, "la.yaml": LEAF, "lc.yaml": LEAF},
            "two nested and two plain sibling sub-workflows (rep %d)" % rep, "wide:2nested+2plain", "ok")
        add({"workflow.yaml": main % "top.yaml", "top.yaml": wide(["a.yaml", "b.yaml"]).replace("root: RootObject", "root: Item").replace("RootObject: {id: RootObject", "Item: {id: Item"),
             "a.yaml": SUB_TMPL % "leaf.yaml", "b.yaml": LEAF, "leaf.yaml": LEAF}, "wide tree below a sub-workflow (rep %d)" % rep, "wide:below-sub", "ok")
        add({"workflow.yaml": wide(["a.yaml", "b.yaml", "a.yaml"]), "a.yaml": SUB_TMPL % "leaf.yaml", "b.yaml": SUB_TMPL % "leaf.yaml", "leaf.yaml": LEAF}, "shared leaf, repeated file (rep %d)" % rep, "wide:shared-leaf", "ok")
        add({"workflow.yaml": wide(["a.yaml", "b.yaml"]), "a.yaml": SUB_TMPL % "missing.yaml", "b.yaml": LEAF}, "missing leaf below a nested sibling (rep %d)" % rep, "missing:wide", "error")
    # a loop step whose sub-workflow name equals the key under which the caller (like the command line program) registered the
    # main workflow in the file cache, with a file of that name present: the name must not resolve to the main workflow
    add({"workflow.yaml": main % "workflow", "workflow": LEAF}, "sub-workflow file named like the cache key of the main workflow", "keycollision:main", "ok")
    add({"workflow.yaml": main % "a.yaml", "a.yaml": SUB_TMPL % "workflow", "workflow": LEAF}, "nested sub-workflow file named like the cache key of the main workflow", "keycollision:nested", "ok")
    # the same names when no such file exists: the loop's sub-workflow is missing - it is neither the main workflow nor the
    # caller's input or configuration file
    keys = {"input": "input.yaml", "config": "config.yaml"}
    add({"workflow.yaml": main % "workflow"}, "missing sub-workflow named like the cache key of the main workflow", "keycollision:missing-main", "error", context_keys=keys)
    add({"workflow.yaml": main % "input"}, "missing sub-workflow named like the cache key of the input file", "keycollision:missing-input", "error", context_keys=keys)
    add({"workflow.yaml": main % "config"}, "missing sub-workflow named like the cache key of the configuration file", "keycollision:missing-config", "error", context_keys=keys)
    add({"workflow.yaml": main % "a.yaml", "a.yaml": SUB_TMPL % "workflow"}, "missing nested sub-workflow named like the cache key of the main workflow", "keycollision:missing-nested", "error", context_keys=keys)
    add({"workflow.yaml": main % "input", "input": LEAF}, "sub-workflow file named like the cache key of the input file", "keycollision:input-present", "ok", context_keys=keys)
    for k, text in enumerate(["?", "? \n: v\n", "? \n", ": v\n", "version: v0.2.0\n? \n: v\n", "steps:\n  ? \n  : {kind: foreach}\n"]):
        add({"workflow.yaml": text}, "main file with an empty key (%d)" % k, "emptykey:main", "error")
        add({"workflow.yaml": main % "a.yaml", "a.yaml": text}, "sub-workflow file with an empty key (%d)" % k, "emptykey:sub", "error")
    # sub-workflows that are complete workflows but offer other outputs than the loop step needs (also one level down)
    for k, outs in enumerate(["done: {t: !expr \"$.steps.w.outputs.success.tag\"}", "error: {t: !expr \"$.steps.w.outputs.success.tag\"}",
                              "finished: {t: !expr \"$.steps.w.outputs.success.tag\"}\n  failed: {e: !expr \"$.steps.w.outputs.success.tag\"}", "Success: {t: !expr \"$.steps.w.outputs.success.tag\"}"]):
        leaf = LEAF.split("outputs:")[0] + "outputs:\n  " + outs + "\n"
        add({"workflow.yaml": main % "a.yaml", "a.yaml": leaf}, "sub-workflow without an output named success (%d)" % k, "sub-outputs:other-names", "error")
        add({"workflow.yaml": main % "a.yaml", "a.yaml": SUB_TMPL % "b.yaml", "b.yaml": leaf}, "nested sub-workflow without an output named success (%d)" % k, "sub-outputs:other-names-nested", "error")
    add({"workflow.yaml": main % "a.yaml", "a.yaml": LEAF.replace("outputs:\n  success:", "output:")}, "sub-workflow with the deprecated single output", "sub-outputs:legacy", "ok")
    add({"workflow.yaml": main % "a.yaml", "a.yaml": LEAF + "  extra: {e: !expr \"$.steps.w.outputs.success.tag\"}\n"}, "sub-workflow with success and another output", "sub-outputs:success+other", "ok")
    # the same trees with the loop steps spelled in other valid ways: the kind in a double-quoted scalar with escapes, flow and
    # block styles mixed, comments and anchors around
    ESC = SUB_TMPL.replace("kind: foreach", 'kind: "\\x66oreach"')
    BLOCK = SUB_TMPL.replace("loop: {kind: foreach, workflow: %s, items: [{tag: !expr \"$.input.tag\"}]}", "loop:\n    items:\n      - tag: !expr $.input.tag\n    workflow: %s   # the file\n    kind: >-\n      foreach")
    CAPS = SUB_TMPL.replace("kind: foreach", "kind: Foreach")
    UPPER = SUB_TMPL.replace("kind: foreach", "kind: FOREACH")
    for name, tmpl in (("capitalised-kind", CAPS), ("upper-case-kind", UPPER)):
        add({"workflow.yaml": main % "a.yaml", "a.yaml": tmpl % "a.yaml"}, "sub-workflow with %s references itself" % name, "spelling:%s:self" % name, "error")
        add({"workflow.yaml": main % "a.yaml", "a.yaml": tmpl % "b.yaml", "b.yaml": tmpl % "a.yaml"}, "mutually referencing sub-workflows with %s" % name, "spelling:%s:mutual" % name, "error")
        add({"workflow.yaml": main % "a.yaml", "a.yaml": tmpl % "leaf.yaml", "leaf.yaml": LEAF}, "nested chain, middle file with %s" % name, "spelling:%s:nested" % name, None)
    for name, tmpl in (("escaped-kind", ESC), ("block-style-kind", BLOCK)):
        add({"workflow.yaml": main % "mid.yaml", "mid.yaml": tmpl % "leaf.yaml", "leaf.yaml": LEAF}, "nested chain, middle file with %s" % name, "spelling:%s:nested" % name, "ok")
        add({"workflow.yaml": main % "a.yaml", "a.yaml": tmpl % "a.yaml"}, "sub-workflow with %s references itself" % name, "spelling:%s:self" % name, "error")
        add({"workflow.yaml": main % "a.yaml", "a.yaml": tmpl % "b.yaml", "b.yaml": tmpl % "a.yaml"}, "mutually referencing sub-workflows with %s" % name, "spelling:%s:mutual" % name, "error")
        add({"workflow.yaml": main % "a.yaml", "a.yaml": tmpl % "missing.yaml"}, "missing nested sub-workflow below %s" % name, "missing:nested", "error")
    # sub-workflows (and main workflows) whose input objects refer to each other: to themselves, mutually, in a cycle of three
    def recursive(objs, root="Item"):
        body = ", ".join("%s: {id: %s, properties: {tag: {required: %s, type: {type_id: string}}%s}}" % (
            oid, oid, "true" if oid == root else "false", "".join(", %s: {required: false, type: {type_id: ref, id: %s}}" % (pn, tgt) for pn, tgt in refs)) for oid, refs in objs)
        return "version: v0.2.0\ninput: {root: %s, objects: {%s}}\nsteps:\n  w: {plugin: {src: leaf_w, deployment_type: scripted}, input: {tag: !expr \"$.input.tag\"}}\noutputs:\n  success: {t: !expr \"$.steps.w.outputs.success.tag\"}\n" % (root, body)
    for name, objs in (("self", [("Item", [("child", "Item")])]), ("mutual", [("Item", [("first", "Entry")]), ("Entry", [("parent", "Item")])]),
                       ("cycle-of-three", [("Item", [("a", "A")]), ("A", [("b", "B")]), ("B", [("back", "Item"), ("again", "A")])]),
                       ("mutual-not-through-root", [("Item", [("x", "P")]), ("P", [("q", "Q")]), ("Q", [("p", "P")])])):
        add({"workflow.yaml": main % "a.yaml", "a.yaml": recursive(objs)}, "loop over a sub-workflow with %s-referencing input objects" % name, "recursive-input:%s" % name, "ok")
        add({"workflow.yaml": main % "a.yaml", "a.yaml": SUB_TMPL % "b.yaml", "b.yaml": recursive(objs)}, "nested loop over a sub-workflow with %s-referencing input objects" % name, "recursive-input:%s:nested" % name, "ok")
        add({"workflow.yaml": recursive([(("RootObject" if o == "Item" else o), [(pn, "RootObject" if t == "Item" else t) for pn, t in refs]) for o, refs in objs], root="RootObject")},
            "main workflow with %s-referencing input objects" % name, "recursive-input:%s:main" % name, "ok")
    add({"workflow.yaml": ""}, "empty main file", "empty-main", "error")
    add({"other.yaml": LEAF}, "no workflow.yaml", "no-main", "error")
    return out


def byte_mutations(check, n):
    out = []
    sd = seeds(check)
    for i in range(n):
        rng = random.Random(derive_seed(check.seed, "c11-bytes", i))
        name, prog = sd[i % len(sd)]
        files = prog.files()
        target = rng.choice(sorted(files))
        b = bytearray(files[target].encode())
        for _ in range(rng.choice([1, 1, 2, 4, 16])):
            op = rng.random()
            pos = rng.randrange(len(b) + 1)
            if op < 0.3 and pos < len(b):
                b[pos] = rng.randrange(256)
            elif op < 0.5:
                b[pos:pos] = bytes([rng.choice([0, 9, 10, 13, 32, 33, 34, 35, 38, 39, 42, 45, 58, 60, 62, 63, 91, 93, 123, 125, 124, 126, 255])])
            elif op < 0.7 and pos < len(b):
                del b[pos:pos + rng.choice([1, 3, 20])]
            elif op < 0.8:
                b = b[:pos]
            elif op < 0.9:
                chunk = b[pos:pos + rng.randrange(1, 40)]
                b[pos:pos] = chunk * rng.choice([2, 5])
            else:
                tok = rng.choice([b"!expr ", b"!oneof ", b"!ordisabled ", b"!soft-optional ", b"!wait-optional ", b"*a ", b"&a ", b"<<: ", b"? ", b"- ", b"---\n", b"...\n", b"%YAML 1.2\n"])
                b[pos:pos] = tok
        files[target] = b.decode("utf-8", errors="surrogateescape").encode("utf-8", errors="surrogateescape").decode("latin-1")
        out.append({"files": files, "what": "%s: byte mutation of %s" % (name, target), "class": "bytes", "latin1": True})
    return out


INPUT_DOCS = ["{? : v}", "?", "? \n: v\n", ": v", "{tag: x, ? : v}", "{tag: x, ~: v}", "tag: x\n? \n: v\n", "{}", "", "null", "[]", "x", "{tag: x}", "{tag: [1]}", "{tag: {a: b}}", "{tag: x, n: notanint}", "{tag: x, items: x}", "{tag: x, items: [x]}", "{tag: x, unknown: 1}",
              "{[1]: x}", "{? {a: b} : c}", "&a {tag: *a}", "{tag: !expr \"$.x\"}", "{tag: !!binary aGk=}", "tag: x\n  bad: indent", "{tag: x, n: 99999999999999999999}",
              "{tag: x, n: 1.5}", "{tag: x, flag: maybe}", "\t", "{tag: \"\\x00\"}", "- a\n- b", "{<<: {tag: x}}", "*undefined"]


def run(check):
    check.rule = ("(1) structural corruption: every key (to depth 7) of 5 seed workflows (all step fields, foreach, all tags, explicit output schema) replaced by each of %d "
                  "YAML shapes (scalars, empty, null, lists, maps, nested, number-like, anchors/aliases, merge keys, non-scalar keys, every engine tag on every node kind "
                  "with malformed expressions, unknown and core-schema tags) and removed (quick: 6 shapes per key); (2) sub-workflow trees: self/mutual recursion, nesting "
                  "depth 3, wide trees (nested and plain siblings, shared leaves; repeated), sub-directories, missing/empty files, directory instead of file, odd `kind`/`workflow` values; (3) %d input documents decoded and run; "
                  "(4) seeded byte-level mutations; (5) input / output schema sections that are well-formed but unusable (references into step namespaces, dangling "
                  "references, defaults that are not JSON, id mismatches), prepared and run; all through engine.New().Parse (+Run) from files on disk in child processes; oracle: child must not panic, overflow its "
                  "stack or stall (watchdog), expected found/missing verdicts for the sub-workflow trees; distinct = (corruption class, outcome)") % (len(SHAPES), len(INPUT_DOCS))
    check.assumptions = ["coverage-guided native fuzzing is not part of the deciding list (not seed-deterministic)"]
    cases_meta = []
    for m in structural(check):
        cases_meta.append(m)
    cases_meta += subworkflow_cases(check)
    cases_meta += byte_mutations(check, check.pick(300, 6000))
    rng = random.Random(derive_seed(check.seed, "c11-in"))
    _n, prog = seeds(check)[0]
    for doc in INPUT_DOCS:
        cases_meta.append({"files": prog.files(), "what": "input document %r" % doc, "class": "input:" + doc[:20], "engine": {"input_yaml": doc}, "run": True})
    # input and output schema sections that are well-formed YAML but unusable as schemas; each is parsed, prepared and - if it
    # was accepted - run with a small input document (decoding the input reads the defaults and links the references)
    STEPS = '  w: {plugin: {src: leaf_w, deployment_type: scripted}, input: {tag: !expr "$.input.tag"}}\n'
    def wf(inp, tail=""):
        return "version: v0.2.0\ninput: %s\nsteps:\n%soutputs:\n  success: {t: !expr \"$.steps.w.outputs.success.tag\"}\n%s" % (inp, STEPS, tail)
    def root(props, rid="RootObject", extra=""):
        return "{root: RootObject, objects: {RootObject: {id: %s, properties: {tag: {type: {type_id: string}}%s}}%s}}" % (rid, props, extra)
    GOODIN = root("")
    schema_cases = {
        "input:ref-into-namespace-missing-object": wf(root(', w: {required: false, type: {type_id: ref, id: Nope, namespace: "$.steps.w.starting.inputs.input"}}')),
        "input:ref-into-missing-namespace": wf(root(', w: {required: false, type: {type_id: ref, id: WorkInput, namespace: "$.steps.nosuch.starting.inputs.input"}}')),
        "input:ref-into-namespace-ok": wf(root(', w: {required: false, type: {type_id: ref, id: WorkInput, namespace: "$.steps.w.starting.inputs.input"}}')),
        "input:ref-missing-object": wf(root(", w: {required: false, type: {type_id: ref, id: Nope}}")),
        "input:default-not-json": wf(root(', n: {required: false, default: "{", type: {type_id: integer}}')),
        "input:default-unquoted-string": wf(root(", s: {required: false, default: plain, type: {type_id: string}}")),
        "input:default-wrong-type": wf(root(", n: {required: false, default: '\"text\"', type: {type_id: integer}}")),
        "input:default-in-nested-object": wf(root(", o: {required: false, type: {type_id: ref, id: Sub}}", extra=", Sub: {id: Sub, properties: {k: {required: false, default: \"[\", type: {type_id: integer}}}}")),
        "input:root-id-mismatch": wf(root("", rid="Other")),
        "input:object-id-mismatch": wf(root(", o: {required: false, type: {type_id: ref, id: Sub}}", extra=", Sub: {id: NotSub, properties: {k: {type: {type_id: integer}}}}")),
        "outputSchema:root-id-mismatch": wf(GOODIN, "outputSchema:\n  success:\n    schema: {root: R, objects: {R: {id: Other, properties: {t: {type: {type_id: string}}}}}}\n"),
        "outputSchema:root-missing": wf(GOODIN, "outputSchema:\n  success:\n    schema: {root: R, objects: {S: {id: S, properties: {t: {type: {type_id: string}}}}}}\n"),
        "outputSchema:dangling-ref": wf(GOODIN, "outputSchema:\n  success:\n    schema: {root: R, objects: {R: {id: R, properties: {t: {type: {type_id: ref, id: Nope}}}}}}\n"),
        "outputSchema:default-not-json": wf(GOODIN, "outputSchema:\n  success:\n    schema: {root: R, objects: {R: {id: R, properties: {t: {type: {type_id: string}}, d: {required: false, default: \"{\", type: {type_id: integer}}}}}}\n"),
        "outputSchema:for-undeclared-output": wf(GOODIN, "outputSchema:\n  other:\n    schema: {root: R, objects: {R: {id: R, properties: {t: {type: {type_id: string}}}}}}\n"),
    }
    NESTED = ", o: {required: false, type: {type_id: ref, id: Sub}}"
    def sub(prop):
        return ", Sub: {id: Sub, properties: {k: %s}}" % prop
    schema_cases.update({
        "input:default-in-nested-object-not-json": wf(root(NESTED, extra=sub('{required: false, default: abc, type: {type_id: integer}}'))),
        "input:default-in-nested-object-ok": wf(root(NESTED, extra=sub('{required: false, default: "5", type: {type_id: integer}}'))),
        "input:default-in-list-item-object": wf(root(", l: {required: false, type: {type_id: list, items: {type_id: ref, id: Sub}}}", extra=sub('{required: false, default: "{", type: {type_id: integer}}'))),
        "input:default-two-levels-down": wf(root(NESTED, extra=", Sub: {id: Sub, properties: {s: {required: false, type: {type_id: ref, id: Sub2}}}}, Sub2: {id: Sub2, properties: {k: {required: false, default: nope, type: {type_id: integer}}}}")),
        "outputSchema:default-in-nested-object": wf(GOODIN, "outputSchema:\n  success:\n    schema: {root: R, objects: {R: {id: R, properties: {t: {type: {type_id: string}}, o: {required: false, type: {type_id: ref, id: S}}}}, "
                                                    "S: {id: S, properties: {k: {required: false, default: \"{\", type: {type_id: integer}}}}}}\n"),
    })
    # input documents that reach the nested objects (a default is only read when the object is there and the property is not)
    INPUTS = ["{tag: x}", "{tag: x, o: {}}", "{tag: x, l: [{}]}", "{tag: x, o: {s: {}}}"]
    for name, text in sorted(schema_cases.items()):
        for k, doc in enumerate(INPUTS):
            if k and not ("nested" in name or "list-item" in name or "levels" in name):
                continue
            cases_meta.append({"files": {"workflow.yaml": text}, "what": "schema section: %s, input %s" % (name, doc), "class": "schema:" + name, "engine": {"input_yaml": doc}, "run": True})
    cases = []
    for i, m in enumerate(cases_meta):
        eng = dict(m.get("engine") or {})
        if not m.get("run"):
            eng["parse_only"] = True
        c = {"id": "c11-%05d" % i, "mode": "engine", "files": m["files"], "scripts": {}, "runs": [], "extra": {"engine": eng}, "no_events": True}
        if m.get("latin1"):
            c["files"] = {k: v for k, v in m["files"].items()}
        cases.append(c)
    with harness.Runner(instrument=False) as rn:
        out = rn.run_cases(cases, per_case_timeout=45)
    stats = {"accepted": 0, "rejected": 0, "classes": {}}
    for i, m in enumerate(cases_meta):
        cid = "c11-%05d" % i
        o = out.get(cid, {})
        check.count()
        if "death" in o:
            d = o["death"]
            if d["kind"] in ("panic", "fatal", "deadlock", "timeout"):
                key = "parse@" + (d["key"].split("@", 1)[1] if "@" in d["key"] else d["key"])
                if d["kind"] == "timeout":
                    key = "parse@stall:" + m["class"].split(":")[0]
                check.report(key, "%s while parsing (%s): %s" % (d["kind"], m["what"], d.get("message", d["key"])[:200]),
                             {"files": m["files"], "engine": m.get("engine"), "detail": d.get("detail", "")[:2500]})
                check.nontrivial("%s|died" % m["class"])
            else:
                check.inconclusive_case(cid, "%s %s" % (d["kind"], d["key"]))
            continue
        res = o.get("result") or {}
        err = res.get("parse_err") or res.get("prepare_err")
        if (res.get("parse_err") or "").startswith("harness:"):
            check.inconclusive_case(cid, res["parse_err"][:100])
            continue
        verdict = "error" if err else "ok"
        stats["rejected" if err else "accepted"] += 1
        stats["classes"][m["class"].split(":")[0]] = stats["classes"].get(m["class"].split(":")[0], 0) + 1
        check.nontrivial("%s|%s" % (m["class"], verdict))
        if m.get("expect") and m["expect"] != verdict:
            check.report("subworkflow@%s->%s" % (m["class"], verdict), "%s: expected %s, got %s (%s)" % (m["what"], m["expect"], verdict, (err or "")[:200]), {"files": m["files"], "engine": m.get("engine")})
        if (m["class"] in ("missing", "missing:nested", "missing:wide") or m["class"].startswith("keycollision:missing")) and err and "missing" not in err and "no such file" not in err and "not found" not in err:
            check.report("subworkflow@missing-not-reported", "%s: error does not report the missing file: %s" % (m["what"], err[:200]), {"files": m["files"]})
        if len(check.samples) < 5 and i % 97 == 0:
            check.sample({"what": m["what"], "verdict": verdict, "error": (err or "")[:160]})
    check.extra.update(stats)
    if stats["accepted"] == 0 or stats["rejected"] == 0:
        check.fail_broken("degenerate corpus: accepted=%d rejected=%d" % (stats["accepted"], stats["rejected"]))
