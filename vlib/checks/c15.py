"""C15 - optional, one-of and or-disabled inputs mean what their tags say."""
import random

from .. import gen, harness, mon, ref, runfam
from ..core import Check, derive_seed
from ..model import Expr, In, Ref, Not, Program, Step, OneOf, Opt, OrDisabled, walk_tree

OUTCOMES = ["success", "error", "crash", "deployfail", "disabled", "alt", "never-enabled", "late-enabled"]
NO_EXEC = ("deployfail", "disabled", "never-enabled")


def src_step(name, outcome):
    s = gen.plugin_step(name, Expr(In("tag")))
    if outcome == "disabled":
        s.fields["enabled"] = Expr(Not(In("flag")))
    return s


def place(tagged, where, rng):
    """Nests a tagged member at a position inside an `any` value: top, in a map, in a list, several per object."""
    if where == "top":
        return {"x": tagged}
    if where == "map":
        return {"m": {"inner": tagged, "lit": "k"}}
    if where == "list":
        return {"l": [{"e": tagged}]}
    return {"x": tagged, "y": {"deep": [{"z": tagged2(tagged)}]}}


def tagged2(t):
    import copy
    return copy.deepcopy(t)


def build(i, check):
    rng = random.Random(derive_seed(check.seed, "c15", i))
    kind = ["wait-optional", "soft-optional", "soft-optional-never-ending", "oneof", "ordisabled", "mixed", "wait-optional-in-oneof", "optional-on-loop"][i % 8]
    if kind == "optional-on-loop":
        return build_loop_source(rng, i)
    oa, ob = rng.choice(OUTCOMES), rng.choice(OUTCOMES)
    if kind == "wait-optional" and rng.random() < 0.25:
        oa = "late-enabled"
    elif kind == "wait-optional" and rng.random() < 0.2:
        oa = "deployfail"
    if kind == "wait-optional-in-oneof":
        # the interesting runs are those in which the option's hard source is there long before the optional one
        oa, ob = rng.choice(["success", "success", "success", "error", "crash"]), rng.choice(["success", "success", "success", "error"])
    multi = kind == "oneof" and i % 24 in (3, 11)
    if kind == "oneof" and i % 24 == 19:
        oa = ob = "success"  # every third one-of program: an option that needs both sources (see below)
    if multi:
        oa, ob = "success", rng.choice(["success", "success", "success", "error"])
    where = rng.choice(["top", "map", "list", "several"])
    consumer_kind = rng.choice(["step-input", "workflow-output", "both"])
    A, B = src_step("A", oa), src_step("B", ob)
    steps = [A, B]
    outcome = {}
    late_gates = []
    for n, o in (("A", oa), ("B", ob)):
        if o == "never-enabled":
            # the step's `enabled` condition refers to a value that is never produced: it can neither run nor be disabled
            from ..model import Bin, Lit
            gate = gen.plugin_step("G" + n, Expr(In("tag")))
            steps.append(gate)
            outcome["G" + n] = rng.choice(["error", "crash", "deployfail"])
            (A if n == "A" else B).fields["enabled"] = Expr(Bin("==", Ref("G" + n, "outputs", "success", "tag"), Lit("x")))
        elif o == "late-enabled":
            # the step is enabled by a condition on another step that takes a while: the `enabled` value arrives while the step
            # is already waiting for it; from then on it behaves like any successful step
            from ..model import Bin, Lit
            gate = gen.plugin_step("L" + n, Expr(In("tag")))
            steps.append(gate)
            late_gates.append("L" + n)
            (A if n == "A" else B).fields["enabled"] = Expr(Bin("==", Ref("L" + n, "outputs", "success", "tag"), Lit("L%s(T1)" % n)))
        elif o not in ("success", "disabled"):
            outcome[n] = o
    triggers = []
    if kind == "wait-optional":
        t = Opt(rng.choice([Ref("A", "outputs", "success", "tag"), Ref("A", "outputs", "success", "tag"), Ref("A", "disabled", "output", "message"), Ref("A", "enabling", "resolved", "enabled"),
                            Ref("A", "crashed", "error", "output"), Ref("A", "deploy_failed", "error", "error"), Ref("A", "outputs", "error", "reason"), Ref("A", "outputs"), Ref("A", "outputs", "success")]), True)
        if oa == "deployfail" and rng.random() < 0.6:
            # a failed deployment decides all later stages of the step at once, also the enabling ones
            t = Opt(rng.choice([Ref("A", "disabled", "output", "message"), Ref("A", "enabling", "resolved", "enabled"), Ref("A", "enabling", "resolved"), Ref("A", "starting", "started"),
                                Ref("A", "crashed", "error", "output"), Ref("A", "crashed", "error"), Ref("A", "outputs", "error", "reason"), Ref("A", "outputs")]), True)
        if oa == "late-enabled" and rng.random() < 0.6:
            # the step gets enabled late: its disabled output can then no longer occur, and a member waiting for it is absent
            t = Opt(rng.choice([Ref("A", "disabled", "output", "message"), Ref("A", "disabled", "output")]), True)
    elif kind == "soft-optional":
        # also the whole stage / the whole output object: present means the source's value, never a placeholder
        t = Opt(rng.choice([Ref("A", "outputs", "success", "tag"), Ref("A", "outputs", "success", "tag"), Ref("A", "outputs"), Ref("A", "outputs", "success")]), False)
    elif kind == "soft-optional-never-ending":
        t = Opt(Ref("A", "outputs", "success", "tag"), False)
        outcome["A"] = "hang"
        oa = "hang"
    elif kind == "oneof":
        na, nb = rng.choice([("a", "b"), ("v1.0", "v2.0"), ("opt.a", "b"), ("A-1", "B_2")])
        t = OneOf("which", {na: Expr(Ref("A", "outputs", "success")), nb: Expr(Ref("B", "outputs", "success"))})
        if multi:
            # an option written as a structure that needs A (referred to several times) and, only inside an expression that starts with A, B; the other option needs A's error
            from ..model import Bin
            A.fields["input"]["n"] = 2
            B.fields["input"]["n"] = 5
            t = OneOf("which", {"both": {"first": Expr(Ref("A", "outputs", "success", "tag")), "sum": Expr(Bin("+", Bin("+", Ref("A", "outputs", "success", "n"), Ref("A", "outputs", "success", "n")), Ref("B", "outputs", "success", "n"))), "l": [Expr(Ref("A", "outputs", "success", "tag")), Expr(Ref("A", "outputs", "success", "tag"))]},
                                "neither": Expr(Ref("A", "outputs", "error"))})
    elif kind == "ordisabled":
        t = OrDisabled(Ref("A", "outputs", "success"))
    elif kind == "wait-optional-in-oneof":
        # an option of a one-of that is an object with a hard field (from B) and a wait-optional field (from A)
        t = OneOf("which", {"main": {"b": Expr(Ref("B", "outputs", "success", "tag")), "details": Opt(Ref("A", "outputs", "success", "tag"), True)},
                            "other": Expr(Ref("B", "outputs", "error"))})
    else:
        t = {"w": Opt(Ref("A", "outputs", "success", "tag"), True), "s": Opt(Ref("B", "outputs", "success", "tag"), False),
             "o": OneOf("which", {"a": Expr(Ref("A", "outputs", "success")), "d": Expr(Ref("A", "disabled", "output"))})}
    held = kind == "oneof" and not multi and i % 24 == 19  # the consumer is held back by a slower step: by then both alternatives are there
    value = place(t, where, rng)
    if where == "list" and isinstance(t, Opt) and t.node.path and t.node.path[-1] in ("tag", "message", "reason") and rng.random() < 0.7:
        # a list of objects whose first item has the optional member where the following ones have a plain value
        value = {"l": [{"e": t, "k": "c"}, {"e": "plain", "k": "c"}, {"e": "plain2", "k": "d"}]}
    outs = {}
    if held:
        steps.append(gen.plugin_step("H", Expr(In("tag"))))
    if consumer_kind in ("step-input", "both"):
        C = gen.plugin_step("C", Expr(In("tag")) if not held else gen.tagref("H"), extra_input={"a": value})
        steps.append(C)
        outs["success"] = {"c": Expr(Ref("C", "outputs", "success"))}
    if consumer_kind in ("workflow-output", "both"):
        outs["direct"] = {"v": tagged2(value), "b": Expr(Ref("B", "outputs", "success", "tag"))} if kind not in ("oneof", "mixed", "wait-optional-in-oneof") and ob == "success" and rng.random() < 0.5 else {"v": tagged2(value)}
    if held and "direct" in outs:
        outs["direct"]["h"] = gen.tagref("H")
    prog = Program(steps, outs, gen.BASE_INPUT)
    scripts = gen.make_scripts(steps, outcome)
    if held:
        scripts["H"]["deploys"] = [{}, {"delay_ms": rng.choice([50, 90])}]
    for gname in late_gates:
        scripts[gname]["deploys"] = [{}, {"delay_ms": rng.choice([15, 30])}]
    # both completion orders: hold A (or B) until the other finished
    order = rng.choice(["free", "A-last", "B-last"] if kind != "wait-optional-in-oneof" else ["free", "A-last", "A-last", "A-last", "B-last"])
    if multi:
        order = rng.choice(["B-last", "B-last", "free"])
    if order == "A-last" and oa not in NO_EXEC + ("hang",) and ob not in NO_EXEC:
        scripts["A"].setdefault("exec", {"outcome": oa})["gate"] = "gA"
        triggers.append({"kind": "exec-end", "src": "B", "nth": 1, "action": "open:gA"})
    elif order == "B-last" and ob not in NO_EXEC and oa not in NO_EXEC + ("hang",):
        scripts["B"].setdefault("exec", {"outcome": ob})["gate"] = "gB"
        triggers.append({"kind": "exec-end", "src": "A", "nth": 1, "action": "open:gB"})
    else:
        order = "free"
    g = {"program": prog, "scripts": scripts, "input": {"tag": "T1", "flag": True}, "shape": "%s/%s/%s A=%s B=%s %s" % (kind, where, consumer_kind, oa, ob, order),
         "outcome": outcome, "kind": kind, "oa": oa, "ob": ob}
    if held:
        g["shape"] += " consumer-held-back"
    if rng.random() < 0.2 and ob not in NO_EXEC and order == "free":
        # the engine is configured to log `success` outputs and its log target is slow; the other source's deployment takes a
        # moment, so that its stage changes fall into the time the first source's output is being logged
        g["logged_outputs"] = {"success": rng.choice([20, 40])}
        ds = scripts["B"].get("deploys") or [{}, {}]
        while len(ds) < 2:
            ds.append({})
        ds[1] = dict(ds[1], delay_ms=rng.choice([5, 15, 30]))
        scripts["B"]["deploys"] = ds
        g["shape"] += " slow-output-log"
    return g, triggers


def build_loop_source(rng, i):
    """The source of the optional member is a loop step: its success data, its failed stage (impossible when every item
    succeeds), its disabled output."""
    sub = gen.sub_program("sub.yaml", 1)
    lo = rng.choice(["success", "success", "item-fails", "disabled"])
    L = Step("L", "foreach", sub=sub, items=Expr(In("items")), parallelism=rng.choice([1, 2]))
    if lo == "disabled":
        L.fields["enabled"] = Expr(Not(In("flag")))
    wait = rng.random() < 0.7
    t = Opt(rng.choice([Ref("L", "failed", "error"), Ref("L", "failed", "error"), Ref("L", "outputs", "success", "data"), Ref("L", "disabled", "output", "message"), Ref("L", "outputs", "success"),
                        Ref("L", "closed", "result"), Ref("L", "closed", "result"), Ref("L", "enabling", "resolved")]), wait)
    where = rng.choice(["top", "map", "list"])
    value = place(t, where, rng)
    consumer_kind = rng.choice(["step-input", "workflow-output", "both"])
    steps, outs = [L], {}
    if consumer_kind in ("step-input", "both"):
        steps.append(gen.plugin_step("C", Expr(In("tag")), extra_input={"a": value}))
        outs["success"] = {"c": Expr(Ref("C", "outputs", "success"))}
    if consumer_kind in ("workflow-output", "both"):
        outs["direct"] = {"v": tagged2(value)}
    rng.shuffle(steps)
    prog = Program(steps, outs, gen.BASE_INPUT)
    scripts = gen.make_scripts(steps, {})
    n = rng.choice([1, 2, 3])
    if lo == "item-fails":
        scripts["sub_w0"]["exec_by_tag"] = {"i%d" % rng.randrange(n): {"outcome": rng.choice(["crash", "error"])}}
    g = {"program": prog, "scripts": scripts, "input": {"tag": "T1", "flag": True, "items": [{"tag": "i%d" % k} for k in range(n)]},
         "shape": "optional-on-loop/%s/%s/%s loop=%s n=%d" % ("wait" if wait else "soft", where, consumer_kind, lo, n), "outcome": {}, "kind": "optional-on-loop", "oa": lo, "ob": "-"}
    return g, []


def matrix_cases():
    """Every source outcome x every stage output an optional member can wait for x wait/soft, in a workflow output next to a
    required member from another step: (g, triggers) pairs."""
    refs = {"success.tag": Ref("A", "outputs", "success", "tag"), "error.reason": Ref("A", "outputs", "error", "reason"), "crashed.output": Ref("A", "crashed", "error", "output"),
            "crashed": Ref("A", "crashed", "error"), "deploy_failed.error": Ref("A", "deploy_failed", "error", "error"), "disabled.message": Ref("A", "disabled", "output", "message"),
            "enabling.enabled": Ref("A", "enabling", "resolved", "enabled"), "started": Ref("A", "starting", "started"), "whole-outputs": Ref("A", "outputs")}
    out = []
    for oa in ("success", "error", "crash", "deployfail", "disabled", "alt"):
        for rname, r in sorted(refs.items()):
            for wait in (True, False):
                A, B = src_step("A", oa), src_step("B", "success")
                outcome = {} if oa in ("success", "disabled") else {"A": oa}
                steps = [A, B]
                outs = {"direct": {"b": Expr(Ref("B", "outputs", "success", "tag")), "m": Opt(r, wait)}}
                prog = Program(steps, outs, gen.BASE_INPUT)
                g = {"program": prog, "scripts": gen.make_scripts(steps, outcome), "input": {"tag": "T1", "flag": True},
                     "shape": "matrix/%s/%s/A=%s" % ("wait" if wait else "soft", rname, oa), "outcome": outcome, "kind": "matrix", "oa": oa, "ob": "success"}
                out.append((g, []))
    return out


def finish_seq(res, src, stage="outputs"):
    """Sequence number of the plugin-boundary event after which the referenced stage of the source step is decided:
    the end of the execution (or a failed deployment) for outputs/crashed, the end of the run-time deployment for deploy_failed."""
    for e in res.get("events") or []:
        if e["src"] != src:
            continue
        if stage == "deploy_failed":
            if e["kind"] == "deploy-fail" or (e["kind"] == "deploy-ok" and mon._nth(e) >= 2):
                return e["seq"]
        elif e["kind"] == "exec-end" or e["kind"] == "deploy-fail":
            return e["seq"]
    return None


def monitor(case, res, sem, g):
    vs = [mon.V("C15", "tag@" + v.key, v.what) for v in mon.monitor_run(case, res, sem) if v.prop in ("C03", "C02", "C04")]
    late = mon.late_stage_waits(sem)
    if late:
        # known finding: a wait-optional member on the crashed/closed/deploy_failed stage of a step that can never start is not
        # evaluated as absent; the run is ended by the fallback detector instead
        for v in vs:
            if v.key == "tag@result@error-but-producible:ErrNoMorePossibleSteps":
                v.key = "tag@wait-optional-on-stage-of-never-started-step->ErrNoMorePossibleSteps"
                v.what += " [wait-optional on %s]" % late[:2]
    ev = res.get("events") or []
    cstart = [e for e in ev if e["kind"] == "exec-start" and e["src"] == "C"]
    # wait-optional: evaluated only after its source has finished one way or the other
    waits = []

    def collect(tree):
        """wait-optional members that the consumer certainly has to wait for: those outside any one-of, and those inside a
        one-of option if no other option of that one-of can be produced (otherwise the consumer may start on the other one)."""
        def visit(node, path):
            if isinstance(node, Opt) and node.wait and not any(str(p).startswith("?") for p in path):
                waits.append(node)
            elif isinstance(node, OneOf):
                usable = [k for k, sub in node.options.items() if sem.avail(sub)[0] == ref.AVAIL]
                if len(usable) == 1:
                    walk_tree(node.options[usable[0]], lambda n2, p2: waits.append(n2) if isinstance(n2, Opt) and n2.wait else None)
        walk_tree(tree, visit)
    for s in sem.p.steps:
        if s.name == "C":
            collect(s.fields.get("input"))
    if cstart and waits:
        for w in waits:
            srcname = w.node.step
            st = sem.state(srcname)
            if srcname in ("A", "B") and w.node.stage in ("outputs", "crashed", "deploy_failed") and (st.executed or st.deployed is False):
                f = finish_seq(res, srcname, w.node.stage)
                if f is None or f > cstart[0]["seq"]:
                    vs.append(mon.V("C15", "wait-optional@consumer-started-before-source-finished", "C started at seq %d, source %s finished at %s" % (cstart[0]["seq"], srcname, f)))
    # soft-optional on a never-ending source must not delay the consumer: such runs must return (deadlock oracle in run());
    # and the never-ending source cannot have been observed as finished
    if g["kind"] == "soft-optional-never-ending":
        aend = [e for e in ev if e["kind"] == "exec-end" and e["src"] == "A" and (e.get("data") or {}).get("id") == "success"]
        if cstart and aend and aend[0]["seq"] < cstart[0]["seq"]:
            vs.append(mon.V("C15", "soft-optional@source-finished?", "never-ending source A reported success before C started"))
    # soft-optional present => value equals the source's and the source had produced it before the consumer started
    for e in cstart:
        blob = (e.get("data") or {}).get("input") or {}
        txt = str(blob)
        if "A(T1)" in txt:
            f = finish_seq(res, "A")
            if f is None or f > e["seq"]:
                vs.append(mon.V("C15", "optional@value-before-production", "C received A's value at seq %d before A produced it (%s)" % (e["seq"], f)))
    return vs


def run(check):
    n = check.pick(360, 4800)
    check.rule = ("programs with one tagged member (!wait-optional, !soft-optional, !soft-optional on a never-ending source, !oneof over two steps, !ordisabled, and all of "
                  "them in one object, !wait-optional inside an option of a !oneof, optional members whose source is a loop step) placed at top level / nested in a map / in a list / several per object, consumed by a step input, a workflow output or both; source "
                  "outcomes drawn from {success, error, crash, deploy failure, disabled, alt, never enabled (condition on a value that is never produced), enabled late}; both completion orders forced by gates; plus sources closed while being deployed (stop condition, caller's abort) with wait-optional members on their result / deployment failure / closure; oracles: reference presence/"
                  "absence and values (schedule-dependent presence of soft-optional is a set), wait-optional consumers start only after the source's terminal event, a "
                  "never-ending soft-optional source never delays the consumer, a present value was produced before the consumer started, one-of discriminator names "
                  "a produced alternative and carries its data; non-trivial/distinct = (tag kind, placement, consumer, source outcomes, order)")
    check.assumptions = ["reference semantics of the tags as stated in the property (vlib/ref.py eval_tree)"]
    items = []
    built = [build(i, check) for i in range(n)] + matrix_cases()
    for i, (g, trig) in enumerate(built):
        inp = ref.normalise_input(g["program"].input_schema, g["input"])
        sem0 = ref.RefSem(g["program"], g["scripts"], inp)
        r = sem0.result()
        if not r["avail"] and r["pending"]:
            continue  # nothing can end the run: not this property's business
        opts = {"triggers": trig} if trig else {}
        if g.get("logged_outputs"):
            opts["logged_outputs"] = g["logged_outputs"]
        case, sem = runfam.build_case("c15-%05d" % i, g, **opts)
        items.append((case, sem, g))
    # a source that is closed while it is still being deployed (its stop condition fires, or the caller aborts the run): it has
    # finished - without result and without deployment failure - so wait-optional members on its result, its deployment
    # failure and its closure are evaluated (the first two absent), in a workflow output and in a step input
    closed_cases = []
    for j in range(check.pick(24, 160)):
        rng = random.Random(derive_seed(check.seed, "c15-closed", j))
        cause = ["stop", "stop", "abort"][j % 3]
        consumer = rng.choice(["output", "step"]) if cause == "stop" else "output"
        job = gen.plugin_step("job", Expr(In("tag")))
        steps = [job]
        if cause == "stop":
            job.fields["stop_if"] = Expr(Ref("S", "outputs", "success", "tag"))
            steps.append(gen.plugin_step("S", Expr(In("tag"))))
        members = {"r": Opt(Ref("job", "outputs", "success", "tag"), True), "d": Opt(Ref("job", "deploy_failed", "error"), True), "c": Opt(Ref("job", "closed", "result"), True)}
        picked = {k: members[k] for k in rng.choice([("d",), ("r", "d"), ("r", "c"), ("r", "d", "c"), ("d", "c")])}
        if consumer == "step":
            steps.append(gen.plugin_step("C", Expr(In("tag")), extra_input={"a": picked}))
            outs = {"report": {"c": gen.tagref("C")}}
        else:
            outs = {"report": dict(picked, tag=Expr(In("tag")))}
        rng.shuffle(steps)
        prog = Program(steps, outs, gen.BASE_INPUT)
        scripts = gen.make_scripts(steps, {})
        scripts["job"]["deploys"] = [{}, {"delay_ms": rng.choice([120, 200])}]
        if cause == "stop":
            scripts["S"]["exec"] = {"outcome": "success", "gate": "deploying"}
            trig = [{"kind": "deploy-call", "src": "job", "nth": 2, "action": "open:deploying"}]
        else:
            trig = [{"kind": "deploy-call", "src": "job", "nth": 2, "action": "cancel:0"}]
        closed_cases.append(({"id": "c15-x%04d" % j, "files": prog.files(), "scripts": scripts, "runs": [{"input": {"tag": "T1"}}], "triggers": trig}, cause, consumer, sorted(picked)))
    # a source stopped by its stop condition WHILE it runs, whose plugin answers the cancel signal with a regular output: it has
    # finished with that output - its closed stage can no longer happen, a wait-optional member on it is evaluated as absent
    for j in range(check.pick(18, 120)):
        rng = random.Random(derive_seed(check.seed, "c15-stopped-running", j))
        on_cancel = ["success", "error"][j % 2]
        consumer = rng.choice(["output", "step", "wait_for"])
        job = gen.plugin_step("job", Expr(In("tag")), stop_if=Expr(Ref("S", "outputs", "success", "tag")))
        steps = [job, gen.plugin_step("S", Expr(In("tag")))]
        members = {"r": Opt(Ref("job", "outputs", "success", "tag"), True), "e": Opt(Ref("job", "outputs", "error", "reason"), True), "c": Opt(Ref("job", "closed", "result"), True), "k": Opt(Ref("job", "crashed", "error", "output"), True)}
        picked = {k: members[k] for k in rng.choice([("c",), ("r", "c"), ("r", "e", "c"), ("c", "k"), ("r", "e", "c", "k")])}
        if consumer == "step":
            steps.append(gen.plugin_step("C", Expr(In("tag")), extra_input={"a": picked}))
            outs = {"report": {"c": gen.tagref("C")}}
        elif consumer == "wait_for":
            steps.append(gen.plugin_step("C", Expr(In("tag")), wait_for=picked))
            outs = {"report": {"c": gen.tagref("C")}}
        else:
            outs = {"report": dict(picked, tag=Expr(In("tag")))}
        rng.shuffle(steps)
        prog = Program(steps, outs, gen.BASE_INPUT)
        scripts = gen.make_scripts(steps, {})
        scripts["job"]["exec"] = {"outcome": "hang", "on_cancel": on_cancel}
        scripts["S"]["exec"] = {"outcome": "success", "gate": "running"}
        trig = [{"kind": "exec-start", "src": "job", "nth": 1, "action": "open:running"}]
        closed_cases.append(({"id": "c15-y%04d" % j, "files": prog.files(), "scripts": scripts, "runs": [{"input": {"tag": "T1"}}], "triggers": trig}, "stop-while-running:" + on_cancel, consumer, sorted(picked)))
    stats = {"kinds": {}, "present": 0, "absent": 0, "discriminators": {}}
    with harness.Runner() as rn:
        if not rn.hang_oracle_works():
            check.fail_broken("the hang oracle (Go runtime deadlock report) does not fire in this build")
        out = rn.run_cases([c for c, _s, _g in items], per_case_timeout=60)
        xout = rn.run_cases([c for c, _a, _b, _m in closed_cases], per_case_timeout=60)
    for case, cause, consumer, picked in closed_cases:
        o = xout.get(case["id"], {})
        check.count()
        shape = "source closed during its deployment (%s), wait-optional %s in a %s" % (cause, "+".join(picked), consumer)
        if cause.startswith("stop-while-running"):
            shape = "source stopped while running, its plugin answered the signal with its %s output; wait-optional %s in a %s" % (cause.split(":")[1], "+".join(picked), consumer)
        if "death" in o:
            d = o["death"]
            if d["kind"] == "deadlock":
                check.report("tag@hang:closed-during-deployment", "run never returned (%s): %s" % (shape, d["key"]), {"case": case, "detail": d.get("detail", "")[:3000]})
            else:
                check.inconclusive_case(case["id"], "%s %s" % (d["kind"], d["key"]))
            continue
        res = o["result"]
        ev = res.get("events") or []
        run = (res.get("runs") or [{}])[0]
        job_ran = any(e["kind"] == "exec-start" and e["src"] == "job" for e in ev) and not cause.startswith("stop-while-running")
        if res.get("parse_err") or res.get("prepare_err") or job_ran:
            check.inconclusive_case(case["id"], "construction did not take effect: %s" % (res.get("parse_err") or res.get("prepare_err") or "job was executed"))
            continue
        stats["kinds"]["closed-during-deployment:" + cause] = stats["kinds"].get("closed-during-deployment:" + cause, 0) + 1
        if run.get("out_id") != "report":
            check.report("tag@wait-optional-on-source-closed-during-deployment:%s->%s" % (cause, run.get("err_type") or run.get("out_id")),
                         "%s: the source finished but the run did not return the output that only needs the members evaluated: %s" % (shape, (run.get("err") or str(run.get("out_id")))[:200]),
                         {"case": case, "result": runfam.strip(res)})
        else:
            data = ref.denum(run.get("data")) or {}
            if consumer == "step":
                cin = [ref.denum((e.get("data") or {}).get("raw") or {}).get("a") for e in ev if e["kind"] == "exec-start" and e["src"] == "C"]
                data = (cin or [{}])[0] or {}
            if consumer in ("step", "wait_for"):
                cin = [ref.denum((e.get("data") or {}).get("raw") or {}) for e in ev if e["kind"] == "exec-start" and e["src"] == "C"]
                data = ((cin or [{}])[0] or {}).get("a") or {}
            absent = {"stop": ("r", "d"), "abort": ("r", "d"), "stop-while-running:success": ("e", "c", "k"), "stop-while-running:error": ("r", "c", "k")}[cause]
            wrong = [k for k in absent if k in data]
            if wrong:
                check.report("tag@wait-optional-present-without-source", "%s: members %s are present although their sources were not produced: %r" % (shape, wrong, data), {"case": case, "result": runfam.strip(res)})
        check.nontrivial(shape)
    by_id = {c["id"]: (c, s, g) for c, s, g in items}
    for cid in sorted(out):
        o = out[cid]
        case, sem, g = by_id[cid]
        check.count()
        if "death" in o:
            d = o["death"]
            if d["kind"] == "deadlock":
                key = "tag@hang:" + g["kind"]
                check.report(key, "run with tagged member never returned (%s): %s" % (g["shape"], d["key"]), {"case": case, "detail": d.get("detail", "")[:3000]})
            elif d["kind"] in ("panic", "fatal"):
                check.report("tag@" + d["key"], "run with tagged member died (%s): %s" % (g["shape"], d.get("message", "")[:200]), {"case": case, "detail": d.get("detail", "")[:3000]})
            else:
                check.inconclusive_case(cid, "%s %s" % (d["kind"], d["key"]))
            continue
        res = o["result"]
        if res.get("parse_err") or res.get("prepare_err"):
            check.extra["rejected"] = check.extra.get("rejected", 0) + 1
            check.extra.setdefault("rejected_samples", []).append((g["shape"], (res.get("parse_err") or res.get("prepare_err"))[:200]))
            continue
        stats["kinds"][g["kind"]] = stats["kinds"].get(g["kind"], 0) + 1
        run = res["runs"][0]
        txt = str(run.get("data"))
        stats["present" if "A(T1)" in txt or "B(T1)" in txt else "absent"] += 1
        for disc in ("'which': 'a'", "'which': 'b'", "'which': 'd'", "'result': 'enabled'", "'result': 'disabled'"):
            if disc in txt:
                stats["discriminators"][disc] = stats["discriminators"].get(disc, 0) + 1
        check.nontrivial(g["shape"])
        for v in monitor(case, res, sem, g):
            check.report(v.key, "case %s (%s): %s" % (cid, g["shape"], v.what), {"case": case, "violation": v.to_json(), "result": runfam.strip(res)})
        if len(check.samples) < 4 and g["kind"] in ("mixed", "oneof") and run.get("out_id"):
            check.sample({"case": cid, "shape": g["shape"], "returned": run.get("out_id"), "data": run.get("data")})
    check.extra.update(stats)
    if check.extra.get("rejected", 0) > len(items) * 0.15:
        check.fail_broken("too many rejected programs: %s" % check.extra.get("rejected_samples")[:3])
