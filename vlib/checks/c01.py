"""C01 - every workflow run terminates with one output or an error."""
import random

from .. import gen, harness, mon, ref, runfam
from ..core import Check, derive_seed
from ..model import Expr, In, Ref, Program


def fan_in_case(rng, k, vector):
    steps, outs = gen.shape_fan_in(rng, k)
    outcome = {}
    names = [s.name for s in steps]
    if vector == "all-fail":
        for n in names:
            outcome[n] = rng.choice(["error", "crash", "deployfail", "alt"])
    elif vector == "all-error":
        for n in names:
            outcome[n] = "error"
    elif vector == "first-fail":
        outcome[names[0]] = rng.choice(["error", "crash", "deployfail"])
    elif vector == "last-fail":
        outcome[names[-1]] = rng.choice(["error", "crash", "deployfail"])
    elif vector == "mixed":
        for n in names:
            if rng.random() < 0.5:
                outcome[n] = rng.choice(["error", "crash", "drop", "deployfail", "alt"])
    elif vector == "one-hangs-rest-fail":
        for n in names:
            outcome[n] = rng.choice(["error", "crash"])
        outcome[rng.choice(names)] = "hang"
    prog = Program(steps, outs, gen.BASE_INPUT)
    return {"program": prog, "scripts": gen.make_scripts(steps, outcome), "input": gen.base_input(rng), "shape": "fan_in%d/%s" % (k, vector), "outcome": outcome}


def fault_hang_case(rng):
    """No output can be produced any more because an expression cannot be evaluated over the produced values,
    while an unrelated step never ends: the run must end with an error and not wait for that step."""
    name, fn = rng.choice([("chain2", lambda r: gen.shape_chain(r, 2)), ("chain3", lambda r: gen.shape_chain(r, 3)), ("diamond", gen.shape_diamond),
                           ("fan_in3", lambda r: gen.shape_fan_in(r, 3))])
    steps, outs = fn(rng)
    where = rng.choice(["output", "step-needed"])
    what = gen.add_fault(rng, steps, outs, where, optional="" if where == "output" else None)
    outcome = {}
    nz = rng.choice([1, 1, 2])
    for i in range(nz):
        steps.append(gen.plugin_step("z%d" % i, Expr(In("tag"))))
        outcome["z%d" % i] = "hang"
    rng.shuffle(steps)
    prog = Program(steps, outs, gen.BASE_INPUT)
    return {"program": prog, "scripts": gen.make_scripts(steps, outcome), "input": gen.base_input(rng), "shape": "%s/evalfault(%s)+%d-never-ending" % (name, what, nz), "outcome": outcome}


def late_waiter_case(rng):
    """Every remaining output hangs on a stage of a step that can never deploy / start; that step's deployment is held back
    until the step it depends on is completely done, so that its announcement 'waiting for input' is the last event of the
    run. Only the stuck-workflow check can end such a run, and it must."""
    oc = rng.choice(["error", "crash", "deployfail", "alt"])
    blocked_at = rng.choice(["starting", "starting", "deploy", "wait_for"])
    a = gen.plugin_step("a", Expr(In("tag")))
    if blocked_at == "starting":
        b = gen.plugin_step("b", gen.tagref("a"))
    elif blocked_at == "wait_for":
        b = gen.plugin_step("b", Expr(In("tag")), wait_for=Expr(Ref("a", "outputs", "success")))
    else:
        b = gen.plugin_step("b", Expr(In("tag")), deploy={"deployer_name": "scripted", "tag": gen.tagref("a")})
    steps = [a, b]
    for i in range(rng.choice([0, 0, 1, 3])):
        steps.append(gen.plugin_step("c%d" % i, gen.tagref("b")))
    stage = rng.choice(["crashed", "closed", "deploy_failed"] if blocked_at == "deploy" else ["crashed", "closed"])
    leaf = {"crashed": Ref("b", "crashed", "error"), "closed": Ref("b", "closed", "result"), "deploy_failed": Ref("b", "deploy_failed", "error")}[stage]
    outs = {"success": {"t": gen.tagref(steps[-1].name)}, "late": {"why": Expr(leaf)}}
    outcome = {"a": oc}
    scripts = gen.make_scripts(steps, outcome)
    trig = []
    if blocked_at != "deploy" and rng.random() < 0.8:
        scripts["b"].setdefault("deploys", [{}, {}])
        scripts["b"]["deploys"] = [{}, {"gate": "gb"}]
        ev = ("deploy-fail", "a", 1) if oc == "deployfail" else rng.choice([("conn-close", "a", 2), ("exec-end", "a", 1)])
        trig = [{"kind": ev[0], "src": ev[1], "nth": ev[2], "action": "open:gb"}]
    rng.shuffle(steps)
    prog = Program(steps, outs, gen.BASE_INPUT)
    return {"program": prog, "scripts": scripts, "input": gen.base_input(rng), "shape": "late-waiter/%s@%s/%s/%s" % (blocked_at, stage, oc, "gated" if trig else "free"),
            "outcome": outcome, "triggers": trig}


def loop_never_ending_item_case(rng):
    """A loop one of whose items never ends by itself, while the run's result is decided elsewhere: the output is ready from
    another step, or another step's failure makes every output impossible. The run must return and take the loop down."""
    from ..model import Step
    sub = gen.sub_program("sub.yaml", rng.choice([1, 2]))
    n = rng.choice([1, 2, 4])
    loop = Step("loop", "foreach", sub=sub, items=Expr(In("items")), parallelism=rng.choice([1, 2, 4]))
    q = gen.plugin_step("q", Expr(In("tag")))
    steps = [loop, q]
    ending = rng.choice(["output-ready", "output-impossible", "needs-loop-and-failed-step"])
    outcome = {}
    if ending == "output-ready":
        outs = {"success": {"q": gen.tagref("q")}}
    elif ending == "output-impossible":
        outs = {"success": {"q": gen.tagref("q")}}
        outcome["q"] = rng.choice(["error", "crash", "deployfail"])
    else:
        outs = {"success": {"q": gen.tagref("q"), "d": Expr(Ref("loop", "outputs", "success", "data"))}}
        outcome["q"] = rng.choice(["error", "crash"])
    rng.shuffle(steps)
    scripts = gen.make_scripts(steps, outcome)
    hang_at = rng.randrange(n)
    last_src = "sub_w%d" % (len(sub.steps) - 1)
    tag = "i%d" % hang_at
    for k in range(len(sub.steps) - 1):
        tag = "sub_w%d(%s)" % (k, tag)
    scripts[last_src]["exec_by_tag"] = {tag: {"outcome": "hang", "on_cancel": rng.choice(["error", "success"])}}
    prog = Program(steps, outs, gen.BASE_INPUT)
    return {"program": prog, "scripts": scripts, "input": {"tag": "T1", "items": [{"tag": "i%d" % k} for k in range(n)]}, "shape": "loop-with-never-ending-item/%s/n=%d" % (ending, n), "outcome": dict(outcome, loop="item %d never ends" % hang_at)}


def skipped_loop_case(rng):
    """A loop that never gets its items (they, or its wait_for, need the output of a step that fails) feeds the only outputs,
    while an unrelated step never ends; also loops whose parallelism comes from the input (0 and negative values included)."""
    from ..model import Step
    sub = gen.sub_program("sub.yaml", 1)
    variant = rng.choice(["items-from-failed-step", "wait_for-failed-step", "parallelism-from-input"])
    steps, outcome = [], {}
    if variant == "parallelism-from-input":
        loop = Step("loop", "foreach", sub=sub, items=Expr(In("items")), parallelism=Expr(In("n")))
        steps = [loop]
        inp = {"tag": "T1", "n": rng.choice([0, 0, -1, 1, 2]), "items": [{"tag": "i%d" % k} for k in range(rng.choice([1, 3]))]}
    else:
        a = gen.plugin_step("a", Expr(In("tag")))
        outcome["a"] = rng.choice(["error", "crash", "deployfail", "alt"])
        if variant == "items-from-failed-step":
            loop = Step("loop", "foreach", sub=sub, items=[{"tag": gen.tagref("a")}, {"tag": "k"}], parallelism=rng.choice([1, 2]))
        else:
            loop = Step("loop", "foreach", sub=sub, items=Expr(In("items")), wait_for=Expr(Ref("a", "outputs", "success")))
        steps = [a, loop]
        inp = {"tag": "T1", "items": [{"tag": "i0"}, {"tag": "i1"}]}
    outs = {"success": {"d": Expr(Ref("loop", "outputs", "success", "data"))}}
    if rng.random() < 0.4:
        # (an output on the loop's `failed` stage makes this the known finding about stages of steps that never start)
        outs["failed"] = {"e": Expr(Ref("loop", "failed", "error"))}
    nz = rng.choice([0, 1, 1])
    for i in range(nz):
        steps.append(gen.plugin_step("z%d" % i, Expr(In("tag"))))
        outcome["z%d" % i] = "hang"
    rng.shuffle(steps)
    prog = Program(steps, outs, gen.BASE_INPUT)
    return {"program": prog, "scripts": gen.make_scripts(steps, outcome), "input": inp, "shape": "skipped-loop/%s+%d-never-ending" % (variant, nz), "outcome": outcome}


def run(check):
    n = check.pick(400, 6000)
    check.rule = ("generated workflow programs (all shapes of vlib.gen incl. fan-in up to 45 producers) x outcome vectors "
                  "(success/error/alt/crash/drop/deploy failure/never-ending) x optional random multi-site delay plans; plus (a) outputs / step inputs that cannot be "
                  "evaluated at run time next to never-ending steps and (b) 'late waiter' programs whose remaining outputs hang on a stage of a step that can never "
                  "deploy/start and whose wait announcement is forced to be the last event of the run; (f) a prepared workflow run again (and looped over) when its only output becomes impossible each time next to a never-ending step; (e) up to 45 steps waiting for a failing step; (c) steps stopped while running that are slow to hand in their result, closure timeouts 0 / 30 ms; (d) never-ending programs aborted by the caller at plugin-boundary events (must return, with a declared output or an error); "
                  "executed through FromYAML->Prepare->Execute in child processes; a case is non-trivial if at least one step "
                  "fails or never ends or >=2 producers feed one consumer; distinct = distinct (shape, outcome vector, result)")
    check.assumptions = ["hang oracle: Go runtime deadlock report in a timer-free child (DESIGN 4.3)",
                         "reference semantics vlib.ref decides which runs must end by themselves"]
    items = []
    for i in range(n):
        rng = random.Random(derive_seed(check.seed, "c01", i))
        r = rng.random()
        opts = {}
        if r < 0.08:
            g = fault_hang_case(rng)
        elif r < 0.16:
            g = late_waiter_case(rng)
            if g["triggers"]:
                opts["triggers"] = g["triggers"]
        elif r < 0.22:
            g = loop_never_ending_item_case(rng)
        elif r < 0.28:
            g = skipped_loop_case(rng)
        elif r < 0.44:
            k = rng.choice([2, 7, 19, 20, 21, 22, 25, 33, 45])
            g = fan_in_case(rng, k, rng.choice(["all-fail", "all-error", "first-fail", "last-fail", "mixed", "one-hangs-rest-fail"]))
        else:
            g = runfam.gen_terminating(check.seed, "c01-%d" % i)
            if g is None:
                continue
        if rng.random() < 0.3:
            opts["plan"] = {"seed": rng.randrange(1 << 30), "prob": 40, "choices": [-1, 1, 3, 8], "max_acts": 12, "record": True}
            opts["plan_scope"] = "execute"
        case, sem = runfam.build_case("c01-%05d" % i, g, **opts)
        if not runfam.terminating(sem):
            continue
        items.append((case, sem, g))
    # many steps (up to 45, the error buffer holds 20) waiting for a step that fails: the run ends with an error while all of
    # them still wait for input and are closed one after the other
    for j, k in enumerate([5, 19, 21, 22, 30, 45] * check.pick(1, 4)):
        rng = random.Random(derive_seed(check.seed, "c01-fanout", j))
        bad = ["deployfail", "crash", "error"][j % 3]
        how = rng.choice(["wait_for", "input"])
        root = gen.plugin_step("root", Expr(In("tag")))
        waiters = [gen.plugin_step("w%d" % q, Expr(In("tag")), wait_for=Expr(Ref("root", "outputs", "success"))) if how == "wait_for" else gen.plugin_step("w%d" % q, gen.tagref("root")) for q in range(k)]
        steps = [root] + waiters
        rng.shuffle(steps)
        outs = {"success": {"r": gen.tagref("root")}} if j % 2 else {"success": {"w": gen.tagref("w0")}}
        g = {"program": Program(steps, outs, gen.BASE_INPUT), "scripts": gen.make_scripts(steps, {"root": bad}), "input": gen.base_input(rng), "shape": "fan_out_waiters_%d/%s/%s" % (k, bad, how), "outcome": {"root": bad}}
        case, sem = runfam.build_case("c01-fo%04d" % j, g)
        items.append((case, sem, g))
    # loops over an empty list (from the input, as a literal, as the result of an earlier step), alone and next to other steps
    from ..model import Step as _Step
    for j in range(check.pick(12, 60)):
        rng = random.Random(derive_seed(check.seed, "c01-emptyloop", j))
        how = ["input", "literal", "step-result", "input-with-parallelism"][j % 4]
        sub = gen.sub_program("sub.yaml", rng.choice([1, 2]))
        steps = []
        if how == "step-result":
            steps.append(gen.plugin_step("a", Expr(In("tag")), extra_input={"l": []}))
            loop = _Step("loop", "foreach", sub=gen.sub_program("sub.yaml", 1), items=Expr(In("items")), wait_for=Expr(Ref("a", "outputs", "success")))
        elif how == "literal":
            loop = _Step("loop", "foreach", sub=sub, items=[])
        else:
            loop = _Step("loop", "foreach", sub=sub, items=Expr(In("items")))
            if how == "input-with-parallelism":
                loop.fields["parallelism"] = rng.choice([1, 3])
        steps.append(loop)
        if j % 3 == 0:
            steps.append(gen.plugin_step("after", Expr(In("tag")), wait_for=Expr(Ref("loop", "outputs", "success"))))
        rng.shuffle(steps)
        outs = {"success": {"d": Expr(Ref("loop", "outputs", "success", "data"))}, "failed": {"e": Expr(Ref("loop", "failed", "error"))}}
        g = {"program": Program(steps, outs, gen.BASE_INPUT), "scripts": gen.make_scripts(steps, {}), "input": {"tag": "T", "items": []}, "shape": "loop-over-empty-list/%s" % how, "outcome": {"loop": "empty"}}
        case, sem = runfam.build_case("c01-el%04d" % j, g)
        items.append((case, sem, g))
    orders = set()
    delayed = [0]

    def on_result(cid, case, sem, g, res, vs):
        oc = g.get("outcome", {})
        if oc or len(sem.p.steps) > 2:
            check.nontrivial(runfam.outcome_signature(g, res))
        orders.add(mon.event_order_signature(res))
        if res.get("delayed"):
            delayed[0] += 1
        run = (res.get("runs") or [{}])[0]
        check.sample({"case": cid, "shape": g.get("shape"), "outcome": oc, "result": {"out_id": run.get("out_id"), "err_type": run.get("err_type")},
                      "events": len(res.get("events") or [])})

    # (c) steps that are stopped (stop_if) while they run and are slow to hand in their result - or never do - with closure
    # timeouts of 0 / 30 ms, the results awaited through wait-optional members; and (d) runs aborted by the caller while a step
    # never ends: the steps end by being closed, the run must return, with a declared output or an error
    from ..model import Opt
    from .. import cancelfam
    closing = []
    for j in range(check.pick(60, 400)):
        rng = random.Random(derive_seed(check.seed, "c01-closed", j))
        if j % 2 == 0:
            k = rng.choice([1, 3, 8])
            S = gen.plugin_step("S", Expr(In("tag")))
            steps, outs, scripts_over = [S], {"tag": Expr(In("tag"))}, {}
            on_cancel = rng.choice(["error", "error", "ignore", "success"])
            timeout = rng.choice([0, 0, 30])
            for q in range(k):
                w = gen.plugin_step("w%d" % q, Expr(In("tag")), stop_if=Expr(Ref("S", "outputs", "success", "tag")))
                w.fields["closure_wait_timeout"] = timeout
                steps.append(w)
                outs["e%d" % q] = Opt(Ref("w%d" % q, "outputs", "error", "reason"), True)
                outs["k%d" % q] = Opt(Ref("w%d" % q, "crashed", "error", "output"), True)
                outs["s%d" % q] = Opt(Ref("w%d" % q, "outputs", "success", "tag"), True)
            rng.shuffle(steps)
            prog = Program(steps, {"report": outs}, gen.BASE_INPUT)
            scripts = gen.make_scripts(steps, {})
            for q in range(k):
                scripts["w%d" % q]["exec"] = {"outcome": "hang", "on_cancel": on_cancel}
            scripts["S"]["exec"] = {"outcome": "success", "gate": "started"}
            shape = "steps stopped while running (k=%d, on cancel: %s, closure timeout %d ms)" % (k, on_cancel, timeout)
            trig = [{"kind": "exec-start", "src": "", "nth": k + 1, "action": "open:started"}]
        else:
            prog, scripts, name = cancelfam.NEVER_ENDING[(j // 2) % len(cancelfam.NEVER_ENDING)](rng)
            evs, _sem = cancelfam.certain_events(prog, scripts, cancelfam.base_input(rng))
            kind, src, nth = evs[rng.randrange(len(evs))]
            shape = "%s aborted by the caller at %s:%s#%d" % (name, kind, src, nth)
            trig = [{"kind": kind, "src": src, "nth": nth, "action": "cancel:0"}]
        closing.append(({"id": "c01-z%04d" % j, "files": prog.files(), "scripts": scripts, "runs": [{"input": cancelfam.base_input(random.Random(j))}], "triggers": trig, "no_events": True}, shape))
    # (f) the same prepared workflow run again (second Execute, second and later items of a loop over it) when its only output
    # becomes impossible in every run while an unrelated step never ends: every run returns, with an error
    from ..model import Step
    for j in range(check.pick(12, 60)):
        rng = random.Random(derive_seed(check.seed, "c01-again", j))
        bad = ["error", "crash", "deployfail"][j % 3]
        def failing(prefix, inp_schema, name):
            f = gen.plugin_step("f", Expr(In("tag")), src=prefix + "f")
            h = gen.plugin_step("h", Expr(In("tag")), src=prefix + "h")
            steps = [f, h]
            rng.shuffle(steps)
            return Program(steps, {"success": {"t": gen.tagref("f")}}, inp_schema, name=name), {prefix + "f": bad}
        if j % 2 == 0:
            prog, oc = failing("", gen.BASE_INPUT, "workflow.yaml")
            scripts = gen.make_scripts(prog.steps, {"f": bad, "h": "hang"})
            runs = [{"input": {"tag": "T%d" % q}, "tag": "r%d" % q} for q in range(rng.choice([2, 3]))]
            shape = "run again after the only output became impossible (%s), %d runs" % (bad, len(runs))
        else:
            sub, oc = failing("sub_", gen.SUB_INPUT, "sub.yaml")
            fe = Step("loop", "foreach", sub=sub, items=Expr(In("items")), parallelism=1)
            prog = Program([fe], {"success": {"d": Expr(Ref("loop", "outputs", "success", "data"))}, "failed": {"e": Expr(Ref("loop", "failed", "error"))}}, gen.BASE_INPUT)
            scripts = gen.make_scripts([fe], {})
            scripts["sub_f"] = gen.make_scripts(sub.steps, {"f": bad})["sub_f"]
            scripts["sub_h"] = {"exec": {"outcome": "hang", "on_cancel": "error"}}
            runs = [{"input": {"tag": "T", "items": [{"tag": "i%d" % q} for q in range(3)]}}]
            shape = "loop over a workflow whose only output becomes impossible in every item (%s)" % bad
        closing.append(({"id": "c01-y%04d" % j, "files": prog.files(), "scripts": scripts, "runs": runs, "no_events": True}, shape))
    with harness.Runner() as rn:

        if not rn.hang_oracle_works():

            check.fail_broken("the hang oracle (Go runtime deadlock report) does not fire in this build")
        runfam.run_and_monitor(check, rn, items, {"C01"}, on_result=on_result)
        check.extra["schedule_points_total"] = len(rn.points)
        zout = rn.run_cases([c for c, _s in closing], per_case_timeout=90)
    ended = {"output": 0, "error": 0}
    for case, shape in closing:
        o = zout.get(case["id"], {})
        check.count()
        if "death" in o:
            d = o["death"]
            if d["kind"] == "deadlock":
                check.report("hang@steps-closed:" + d["key"][len("deadlock@"):][:100], "run never returned although all its steps were stopped or closed (%s): %s" % (shape, d["key"]), {"case": case, "detail": d.get("detail", "")[:3000]})
            else:
                check.inconclusive_case(case["id"], "%s %s" % (d["kind"], d["key"]))
            continue
        res = o["result"]
        if res.get("parse_err") or res.get("prepare_err"):
            check.inconclusive_case(case["id"], (res.get("parse_err") or res.get("prepare_err"))[:100])
            continue
        for run in (res.get("runs") or [{}]):
            if bool(run.get("out_id")) == bool(run.get("err")):
                check.report("result@neither-output-nor-error" if not run.get("out_id") else "result@output-and-error", "%s: the run returned output id %r and error %r" % (shape, run.get("out_id"), run.get("err")), {"case": case, "run": run})
            ended["output" if run.get("out_id") else "error"] += 1
        check.nontrivial("%s|%s" % (shape.split(" at ")[0], "output" if run.get("out_id") else "error"))
    check.extra["runs_with_stopped_or_closed_steps"] = ended
    check.extra["distinct_plugin_event_orders"] = len(orders)
    check.extra["cases_with_injected_delays"] = delayed[0]
    if check.evaluations < n // 2:
        check.fail_broken("only %d of %d cases were executed" % (check.evaluations, n))
