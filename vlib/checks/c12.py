"""C12 - a plugin step reports a consistent life story under every interleaving (provider-level harness)."""
import itertools
import random

from .. import harness
from ..core import Check, derive_seed

SYMS = {
    "D": {"op": "provide", "stage": "deploy", "input": {}},
    "Dc": {"op": "provide", "stage": "deploy", "input": {"deploy": {"deployer_name": "scripted", "tag": "cfg"}}},
    "Dbad": {"op": "provide", "stage": "deploy", "input": {"deploy": {"deployer_name": "scripted", "nosuchfield": 1}}, "invalid": True},
    "E1": {"op": "provide", "stage": "enabling", "input": {"enabled": True}},
    "E0": {"op": "provide", "stage": "enabling", "input": {"enabled": False}},
    "S": {"op": "provide", "stage": "starting", "input": {"input": {"tag": "T"}, "closure_wait_timeout": 30}},
    "S0": {"op": "provide", "stage": "starting", "input": {"input": {"tag": "T"}, "closure_wait_timeout": 0}},
    "Sd": {"op": "provide", "stage": "starting", "input": {"input": {"tag": "T"}}},
    "Sbad": {"op": "provide", "stage": "starting", "input": {"input": {"n": 1}}, "invalid": True},
    "X": {"op": "provide", "stage": "cancelled", "input": {"stop_if": True}},
    "X0": {"op": "provide", "stage": "cancelled", "input": {"stop_if": False}},
    "C": {"op": "close"},
    "F": {"op": "force_close"},
    "Z": {"op": "sleep", "ms": 12},
    "G": {"op": "open", "gate": "g"},
    "Q": {"op": "state"},
}
ENUM_ALPHABET = ["D", "E1", "E0", "S", "Sbad", "X", "C", "F", "Z", "G"]

SCRIPTS = {
    "success": {},
    "hang-obey": {"exec": {"outcome": "hang", "on_cancel": "error"}},
    "hang-ignore": {"exec": {"outcome": "hang", "on_cancel": "ignore"}},
    "exec-gated": {"exec": {"outcome": "success", "gate": "g"}},
    "deploy-gated": {"deploys": [{}, {"gate": "g"}]},
    "deploy-fail": {"deploys": [{}, {"fail": "scripted"}]},
    "crash": {"exec": {"outcome": "crash"}},
    "error-output": {"exec": {"outcome": "error"}},
    "undeclared": {"exec": {"outcome": "undeclared"}},
    "hello-eof": {"deploys": [{}, {"hello": "eof"}]},
    "mismatch": {"deploys": [{}, {"schema": "mismatch"}]},
    "nocancel-hang": {"schema": "nocancel", "exec": {"outcome": "hang"}},
    # the connection stops taking writes once the execution has begun (signals can no longer be delivered)
    "deaf-after-start": {"deploys": [{}, {"write_err_after_start": True}], "exec": {"outcome": "hang", "on_cancel": "error"}},
    "slow-deploy": {"deploys": [{}, {"delay_ms": 25}]},
    # the plugin deployed for the run is a later release that declares and returns an output the step was not prepared with
    "later-release-new-output": {"deploys": [{}, {"schema": "more-outputs"}], "exec": {"outcome": "undeclared"}},
    "later-release-grown": {"deploys": [{}, {"schema": "grown"}]},
}


def to_actions(seq):
    out = []
    for s in seq:
        if isinstance(s, (list, tuple)) and s and s[0] == "par":
            out.append({"op": "par", "par": [to_actions(x) for x in s[1]]})
        else:
            a = {k: v for k, v in SYMS[s].items() if k != "invalid"}
            if SYMS[s].get("invalid"):
                a["skip_lin"] = True
            out.append(a)
    return out


def flat(seq):
    for s in seq:
        if isinstance(s, (list, tuple)) and s and s[0] == "par":
            for x in s[1]:
                yield from flat(x)
        else:
            yield s


def monitor(res, seq, overlapped):
    """Returns list of (key, what)."""
    vs = []
    ev = res.get("events") or []
    extra = res.get("extra") or {}
    declared = extra.get("declared") or {}
    finished, failed = {}, set()
    completes = []
    for e in ev:
        if e["kind"] != "cb-enter":
            continue
        d = e.get("data") or {}
        if e["src"] in ("OnStageChange", "OnStepComplete"):
            prev = d.get("prev")
            if prev is not None:
                finished[prev] = finished.get(prev, 0) + 1
                if finished[prev] == 2:
                    vs.append(("story@stage-finished-twice:" + prev, "stage %s reported finished more than once" % prev))
                po = d.get("prev_out")
                if po is not None and po not in (declared.get(prev) or []):
                    if not (prev == "outputs" and res.get("_undeclared_ok")):
                        vs.append(("story@undeclared-output:%s.%s" % (prev, po), "stage %s reported output %r which is not declared (declared: %s)" % (prev, po, declared.get(prev))))
            if e["src"] == "OnStepComplete":
                completes.append(e["seq"])
        elif e["src"] == "OnStepStageFailure":
            failed.add(d.get("stage"))
    both = sorted(set(finished) & failed)
    for s in both:
        vs.append(("story@finished-and-impossible:" + s, "stage %s was reported both finished and impossible" % s))
    if len(completes) != 1:
        vs.append(("story@completions:%d" % len(completes), "%d completion reports (expected exactly one by the time the step is closed)" % len(completes)))
    finals = [e for e in ev if e["kind"] == "state" and e.get("run") == "final"]
    if finals and completes and finals[-1].get("data") != "finished":
        vs.append(("story@state-after-completion:" + str(finals[-1].get("data")), "step shows state %r after completion was reported" % finals[-1].get("data")))
    # closing: returns (else the child dies), idempotent, no notification starts after it returned
    close_rets = [e for e in ev if e["kind"] == "act-return" and e["src"] in ("close", "force_close")]
    for e in close_rets:
        if (e.get("data") or {}).get("err"):
            vs.append(("close@error", "%s returned error %r" % (e["src"], e["data"]["err"])))
    if close_rets:
        first = min(e["seq"] for e in close_rets)
        late = [e for e in ev if e["kind"] == "cb-enter" and e["seq"] > first]
        if late:
            vs.append(("close@notification-after-return:" + late[0]["src"], "%s notification started (seq %d) after a close request had returned (seq %d)" % (late[0]["src"], late[0]["seq"], first)))
    # providing the same stage input twice is refused (sequential view; overlapped view is the porcupine verdict)
    if extra.get("linearizable") == "illegal":
        provs = [(e["src"], e.get("run"), (e.get("data") or {}).get("err")) for e in ev if e["kind"] == "act-return" and e["src"].startswith("provide:")]
        vs.append(("provide@not-once-only", "history of ProvideStageInput calls is not linearizable w.r.t. 'accepted at most once per stage': %s" % provs))
    return vs


def gen_overlapped(rng):
    pre = [rng.choice(["D", "E1", "Z", "S", "G"]) for _ in range(rng.randrange(0, 3))]
    actors = []
    for _ in range(rng.choice([2, 2, 3])):
        actors.append([rng.choice(["D", "E1", "E0", "S", "X", "C", "F", "Z", "G", "S", "C", "D"]) for _ in range(rng.randrange(1, 4))])
    post = [rng.choice(["Z", "Q", "C", "F", "S"]) for _ in range(rng.randrange(0, 2))]
    return pre + [("par", actors)] + post


def run(check):
    L = check.pick(3, 4)
    scripts_enum = check.pick(["success", "hang-obey", "exec-gated"], ["success", "hang-obey", "hang-ignore", "exec-gated", "deploy-gated", "deploy-fail"])
    check.rule = ("RunnableStep.Start of the plugin provider is driven directly with a recording StageChangeHandler and the scripted deployer/plugin; environment "
                  "action sequences over {provide deploy/enabling(true,false)/starting(valid,invalid)/stop, Close, ForceClose, short sleep, release gate}: all "
                  "sequences up to length %d enumerated on %d plugin behaviours, sampled longer ones on 12 behaviours (success, hang obeying/ignoring cancel, gated "
                  "execution/deployment, deploy failure, crash, error output, undeclared output, hello EOF, schema mismatch, no cancel handler), and overlapped "
                  "histories (2-3 actor goroutines, random delay plans, Close fired at schedule points, the step goroutine held 30 ms at a schedule point while a stop / close arrives); monitors: each stage finished at most once and never also "
                  "impossible, reported outputs declared, exactly one completion then state finished, close calls return without error and no notification starts "
                  "after a close returned, ProvideStageInput never blocks (deadlock oracle) and once-only acceptance per stage checked with porcupine; "
                  "distinct = distinct (behaviour, action sequence) whose step goroutine was started") % (L, len(scripts_enum))
    check.assumptions = ["every case ends with a ForceClose so that the life story is complete", "transitions are not required to follow NextStages edges (the real lifecycle has no deploy->enabling edge)"]
    cases, meta = [], {}
    idx = 0

    def add(script_name, seq, overlapped=False, plan=None):
        nonlocal idx
        cid = "c12-%06d" % idx
        idx += 1
        c = {"id": cid, "mode": "provider", "scripts": {"P": SCRIPTS[script_name]}, "extra": {"actions": to_actions(seq), "src": "P"}}
        if plan:
            c["plan"] = plan
        cases.append(c)
        meta[cid] = (script_name, seq, overlapped)

    for sn in scripts_enum:
        for n in range(0, L + 1):
            for seq in itertools.product(ENUM_ALPHABET, repeat=n):
                add(sn, list(seq))
    # a step that is executing on a connection which no longer takes writes: repeated stop requests and closes
    for seq in (["D", "E1", "S", "Z", "X", "Z", "X", "Z", "C"], ["D", "E1", "S", "Z", "X", "C"], ["D", "E1", "S", "Z", "C", "F"], ["D", "E1", "S", "Z", "F"],
                ["D", "E1", "S", "Z", "X", "X0", "F"], ["D", "E1", "S", "Z", "X", "Q", "Z", "Q", "C"], ["D", "E1", "S", "Z", "X", "Z", "Z", "Z", "Z", "F"]):
        for sn in ("deaf-after-start", "hang-obey", "hang-ignore", "nocancel-hang"):
            add(sn, seq)
            # the same with a closure timeout of zero and with the default one
            add(sn, ["S0" if x == "S" else x for x in seq])
    for seq in (["D", "E1", "Sd", "Z", "C"], ["D", "E1", "Sd", "Z", "X", "Z", "F"], ["D", "E1", "S", "Z", "Z", "C"], ["D", "E1", "S0", "Z", "Z", "F"], ["D", "E1", "S"], ["Dc", "E1", "S", "Z", "Z"]):
        for sn in ("later-release-new-output", "later-release-grown", "success", "hang-obey", "undeclared"):
            add(sn, seq)
    for i in range(check.pick(600, 8000)):
        rng = random.Random(derive_seed(check.seed, "c12-long", i))
        sn = rng.choice(sorted(SCRIPTS))
        n = rng.randrange(4, 8)
        add(sn, [rng.choice(list(SYMS)) for _ in range(n)])
    for i in range(check.pick(600, 8000)):
        rng = random.Random(derive_seed(check.seed, "c12-ovl", i))
        sn = rng.choice(sorted(SCRIPTS))
        plan = None
        r = rng.random()
        if r < 0.4:
            plan = {"seed": rng.randrange(1 << 30), "prob": 80, "choices": [-1, 1, 4, 12], "max_acts": 10}
        add(sn, gen_overlapped(rng), overlapped=True, plan=plan)
    with harness.Runner() as rn:
        if not rn.hang_oracle_works():
            check.fail_broken("the hang oracle (Go runtime deadlock report) does not fire in this build")
        points = [p for p in rn.points if p.startswith("pl:")]
        for i in range(check.pick(150, 1500)):
            rng = random.Random(derive_seed(check.seed, "c12-pt", i))
            sn = rng.choice(["success", "hang-obey", "exec-gated", "deploy-gated", "crash", "hang-ignore", "deaf-after-start", "slow-deploy"])
            pt = rng.choice(points) if points else None
            seq = [rng.choice(["D", "E1", "S", "Z", "G", "X"]) for _ in range(rng.randrange(2, 6))]
            plan = {"sites": [{"point": pt, "hit": rng.choice([1, 1, 2, 3]), "action": rng.choice(["close", "force_close"])}]} if pt else None
            add(sn, seq, overlapped=True, plan=plan)
        # the step goroutine held for a while at one schedule point (e.g. inside a notification, or between receiving the plugin's
        # result and leaving the running stage) while the plugin finishes; a stop request / close then arrives in that window
        combos = [(pt, sn, tail) for pt in points for sn in ("success", "error-output", "hang-obey", "deaf-after-start") for tail in ("X", "C", "F", "X0")]
        random.Random(derive_seed(check.seed, "c12-hold")).shuffle(combos)
        for (pt, sn, tail) in combos[:check.pick(300, len(combos))]:
            for hit in (1, 2):
                add(sn, ["D", "E1", "S", "Z", tail, "Z", "Z"], overlapped=True, plan={"sites": [{"point": pt, "hit": hit, "ms": 30}]})
        out = rn.run_cases(cases, per_case_timeout=60)
    stats = {"enumerated_sequences": 0, "overlapped_histories": 0, "callbacks_observed": 0, "porcupine_histories": 0, "porcupine_unknown": 0, "completion_stages": {}}
    for cid in sorted(out):
        o = out[cid]
        sn, seq, ovl = meta[cid]
        check.count()
        stats["overlapped_histories" if ovl else "enumerated_sequences"] += 1
        case = [c for c in cases if c["id"] == cid][0] if "death" in o else None
        if "death" in o:
            d = o["death"]
            if d["kind"] == "deadlock":
                check.report("blocked@" + d["key"][len("deadlock@"):], "an environment call never returned (behaviour %s, actions %s): %s" % (sn, seq, d["key"]),
                             {"case": case, "detail": d.get("detail", "")[:3000]})
            elif d["kind"] in ("panic", "fatal"):
                check.report(d["key"], "step provider died with %s (behaviour %s, actions %s): %s" % (d["kind"], sn, seq, d.get("message", "")[:200]), {"case": case, "detail": d.get("detail", "")[:3000]})
            else:
                check.inconclusive_case(cid, "%s %s" % (d["kind"], d["key"]))
            continue
        res = o["result"]
        if res.get("parse_err") or res.get("prepare_err"):
            check.inconclusive_case(cid, (res.get("parse_err") or res.get("prepare_err"))[:100])
            continue
        if sn == "undeclared":
            res["_undeclared_ok"] = False
        ex = res.get("extra") or {}
        if ex.get("provide_ops"):
            stats["porcupine_histories"] += 1
        if ex.get("linearizable") == "unknown":
            stats["porcupine_unknown"] += 1
            check.inconclusive_case(cid, "porcupine timeout")
        cbs = [e for e in res.get("events") or [] if e["kind"] == "cb-enter"]
        stats["callbacks_observed"] += len(cbs)
        comp = [e for e in cbs if e["src"] == "OnStepComplete"]
        if comp:
            st = (comp[0].get("data") or {}).get("prev")
            stats["completion_stages"][st] = stats["completion_stages"].get(st, 0) + 1
        check.nontrivial("%s|%s" % (sn, seq))
        for key, what in monitor(res, seq, ovl):
            check.report(key, "behaviour %s, actions %s: %s" % (sn, seq, what), {"case": [c for c in cases if c["id"] == cid][0], "result": {"events": res.get("events"), "extra": ex}})
        if len(check.samples) < 3 and ovl and len(cbs) > 6:
            check.sample({"behaviour": sn, "actions": seq, "callbacks": [(e["seq"], e["src"], (e.get("data") or {}).get("prev") or (e.get("data") or {}).get("stage")) for e in cbs][:14],
                          "linearizable": ex.get("linearizable")})
    check.extra.update(stats)
