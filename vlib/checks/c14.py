"""C14 - a prepared workflow can be run again and concurrently with identical results."""
import json
import random

from .. import gen, harness, mon, ref, runfam
from ..core import Check, derive_seed
from ..model import Expr, In, Ref, Program, Step, OrDisabled


def base_program(rng, force=None):
    shape = force or rng.choice(["chain", "diamond", "fan_in", "wait_for", "enabled", "foreach", "foreach", "foreach_after", "random_dag", "deploy_expr", "functions", "functions",
                        "fault_by_input", "fault_by_input", "oneof_ordered", "deploy_by_input", "legacy_output", "engine_messages", "engine_messages"])
    if shape == "engine_messages":
        # texts the engine and the providers compose themselves (disabled message, crash report, deployment failure): a run's
        # result must not show whether other runs were in progress
        from ..model import Not
        a = gen.plugin_step("a", Expr(In("tag")), enabled=Expr(Not(In("flag"))))
        b = gen.plugin_step("b", Expr(In("tag")))
        c = gen.plugin_step("c", Expr(In("tag")))
        outs = {"report": {"disabled": Expr(Ref("a", "disabled", "output", "message")), "crash": Expr(Ref("b", "crashed", "error", "output")), "undeployed": Expr(Ref("c", "deploy_failed", "error", "error"))}}
        return shape, [a, b, c], outs
    if shape == "legacy_output":
        # the deprecated single `output:` form (rewritten into `outputs` whenever the text is prepared)
        steps, outs = gen.shape_chain(rng, rng.choice([1, 2]))
        return shape, steps, {"success": outs["success"]}
    if shape == "deploy_by_input":
        # the deployment configuration of a step comes from the run's input: each run deploys (or fails to) on its own terms
        a = gen.plugin_step("a", Expr(In("tag")))
        b = gen.plugin_step("b", gen.tagref("a"), deploy={"deployer_name": "scripted", "fail": Expr(In("flag")), "tag": Expr(In("tag"))})
        outs = {"success": {"b": gen.tagref("b")}, "undeployed": {"why": Expr(Ref("b", "deploy_failed", "error", "error")), "a": gen.tagref("a")}}
        return shape, [a, b], outs
    if shape == "fault_by_input":
        # an expression that cannot be evaluated for some inputs (n = 0): such a run fails,
        # and must leave the prepared workflow as it was
        from ..model import Bin, Lit
        a = gen.plugin_step("a", Expr(In("tag")), extra_input={"n": Expr(In("n"))})
        q = Bin("/", Lit(100), In("n"))
        if rng.random() < 0.5:
            steps, outs = [a], {"success": {"t": gen.tagref("a"), "q": Expr(q)}}
        else:
            b = gen.plugin_step("b", gen.tagref("a"), extra_input={"n": Expr(q)})
            steps, outs = [a, b], {"success": {"t": gen.tagref("b")}}
        return shape, steps, outs
    if shape == "oneof_ordered":
        # both alternatives of the one-of are produced before the output is evaluated, in an order the workflow itself fixes
        from ..model import OneOf
        first = gen.plugin_step("first", Expr(In("tag")))
        second = gen.plugin_step("second", gen.tagref("first"))
        slow = gen.plugin_step("slow", gen.tagref("second"))
        outs = {"success": {"winner": OneOf("which", {"first": Expr(Ref("first", "outputs", "success")), "second": Expr(Ref("second", "outputs", "success"))}),
                            "s": gen.tagref("slow")}}
        return shape, [second, slow, first], outs
    if shape == "functions":
        # values computed by built-in functions (a table shared by all runs) in the output and in a step input
        from ..model import Call
        a = gen.plugin_step("a", Expr(Call("toUpper", In("tag"))), extra_input={"a": Expr(Call("bindConstants", Ref("w", "outputs", "success", "l"), In("tag")))})
        w = gen.plugin_step("w", Expr(In("tag")), extra_input={"l": [Expr(In("tag")), "k1", "k2"]})
        steps = [w, a]
        outs = {"success": {"bound": Expr(Call("bindConstants", Ref("w", "outputs", "success", "l"), In("tag"))), "a": Expr(Ref("a", "outputs", "success"))}}
    else:
        steps, outs = gen.SHAPES[shape](rng)
    # outputs on failure paths so that different runs legitimately end differently
    for s in steps:
        if s.kind == "plugin":
            outs["err_" + s.name] = {"why": Expr(Ref(s.name, "outputs", "error", "reason"))}
    return shape, steps, outs


def run(check):
    n = check.pick(120, 1200)
    check.rule = ("(history) one step registry used for workflow X, another workflow Y (handler-less step, same sub-workflow file name with other contents, refused, arbitrary) and X again: both runs of X return the same; one prepared workflow executed N times: sequentially and overlapped (N in {2,4,8,16,32}), with distinct inputs whose unique tag flows through every step "
                  "to the output; per-tag outcome scripts (some runs fail on purpose, some inputs make an expression fail at run time, some loop items end their sub-run with an error), one run of an overlapped group cancelled mid-way, re-runs after failed and cancelled "
                  "runs, and two workflows prepared from the same text used alternately; oracles: every run's result equals the reference for *its* input (isolated "
                  "first-run semantics), a one-of whose alternatives are produced in a fixed order chooses the same alternative in every run, every value seen at the plugin boundary carries exactly one run's tag, a cancelled sibling perturbs nobody; "
                  "non-trivial = >=2 runs; distinct = (shape, N, overlap mode, failing-run pattern)")
    check.assumptions = ["the deployer scripts depend only on the input tag, so the reference for one run is independent of the others"]
    items = []
    metas = {}
    for i in range(n):
        rng = random.Random(derive_seed(check.seed, "c14", i))
        shape, steps, outs = base_program(rng)
        prog = Program(steps, outs, gen.BASE_INPUT)
        if shape == "legacy_output":
            prog.legacy_output = outs["success"]
        N = rng.choice([2, 2, 4, 8, 16] if check.quick() else [2, 4, 8, 16, 32])
        mode = rng.choice(["sequential", "overlapped", "overlapped", "mixed", "overlapped+cancel"])
        scripts = gen.make_scripts(steps, {"b": "crash", "c": "deployfail"} if shape == "engine_messages" else {})
        has_fe = any(s.kind == "foreach" for s in steps)
        plugin_srcs = [s.src for s in steps if s.kind == "plugin"]
        inputs, fail_tags = [], {}
        for r in range(N):
            tag = "R%dx" % r
            inp = {"tag": tag, "n": r + 1}
            if shape == "deploy_by_input":
                inp["flag"] = rng.random() < 0.5
            if shape == "fault_by_input" and (rng.random() < 0.35 or r == 0 and rng.random() < 0.5):
                inp["n"] = 0
            if has_fe:
                inp["items"] = [{"tag": "%s-i%d" % (tag, k)} for k in range(rng.choice([1, 2, 3, 5]))]
            inputs.append(inp)
        if has_fe and rng.random() < 0.5:
            # some items of some runs end their sub-workflow run with an error (no output of it is producible)
            for s_ in steps:
                if s_.kind == "foreach":
                    first = s_.sub.steps[0]
                    per_item = {}
                    for inp in inputs:
                        for it in inp["items"]:
                            if rng.random() < 0.25:
                                per_item[it["tag"]] = {"outcome": "crash"}
                    if per_item:
                        scripts.setdefault(first.src, {})["exec_by_tag"] = per_item
                        fail_tags[first.src] = dict(per_item)
        # per-run failures keyed by the value the first step receives from its run's input
        if plugin_srcs and rng.random() < 0.6:
            for r in range(N):
                if rng.random() < 0.35:
                    src = plugin_srcs[0]
                    fail_tags.setdefault(src, {})[inputs[r]["tag"]] = {"outcome": rng.choice(["error", "crash"])}
            for src, bt in fail_tags.items():
                scripts.setdefault(src, {}).setdefault("exec_by_tag", {}).update(bt)
        runs = []
        for r in range(N):
            par = mode in ("overlapped", "overlapped+cancel") or (mode == "mixed" and r >= N // 2)
            runs.append({"input": inputs[r], "parallel": par, "tag": inputs[r]["tag"]})
        case = {"id": "c14-%05d" % i, "files": prog.files(), "scripts": scripts, "runs": runs}
        cancelled = None
        if mode == "overlapped+cancel" and plugin_srcs:
            cancelled = rng.randrange(N)
            # make the cancelled run's first step never finish by itself; cancel that run once it started executing
            src = plugin_srcs[0]
            scripts.setdefault(src, {}).setdefault("exec_by_tag", {})[inputs[cancelled]["tag"]] = {"outcome": "hang", "on_cancel": "error"}
            case["triggers"] = [{"kind": "exec-start", "src": src, "nth": 0, "action": "cancel:%d" % cancelled}]
            # nth must select the execution of the cancelled run: use a trigger per candidate ordinal is impossible; instead cancel at the
            # first exec-start of that source and require the cancelled run to be started first (it is not parallel)
            runs[cancelled]["parallel"] = True
        sems = []
        for r in range(N):
            sems.append(ref.RefSem(prog, scripts, ref.normalise_input(prog.input_schema, inputs[r])))
        # the hanging run must be the cancelled one only; drop the case if the reference says another run never ends
        ok = True
        for r, sm in enumerate(sems):
            if r != cancelled and not runfam.terminating(sm):
                ok = False
        if not ok:
            continue
        if cancelled is not None:
            # cancel when the hanging execution (identified by its input tag) starts: handled by a tag-specific trigger kind
            case["triggers"] = [{"kind": "exec-start-tag:" + inputs[cancelled]["tag"], "src": plugin_srcs[0], "nth": 1, "action": "cancel:%d" % cancelled}]
        items.append(case)
        metas[case["id"]] = (prog, sems, shape, N, mode, cancelled, sorted((s, sorted(t)) for s, t in fail_tags.items()))
    # two workflows prepared from the same text, used by several goroutines (papi mode)
    papi = []
    for i in range(check.pick(20, 150)):
        rng = random.Random(derive_seed(check.seed, "c14-papi", i))
        shape, steps, outs = base_program(rng, force="legacy_output" if i % 4 == 0 else ("foreach" if i % 4 == 1 else None))
        prog = Program(steps, outs, gen.BASE_INPUT)
        if shape == "legacy_output":
            prog.legacy_output = outs["success"]
        scripts = gen.make_scripts(steps, {})
        inp = {"tag": "P%d" % i, "n": i + 1}
        if any(s.kind == "foreach" for s in steps):
            inp["items"] = [{"tag": "P%d-i0" % i}, {"tag": "P%d-i1" % i}]
        case = {"id": "c14-p%04d" % i, "mode": "papi", "files": prog.files(), "scripts": scripts, "runs": [{"input": inp}], "extra": {"workers": rng.choice([2, 3, 4]), "iterations": 2, "share_prepared": False}}
        papi.append(case)
        metas[case["id"]] = (prog, [ref.RefSem(prog, scripts, ref.normalise_input(prog.input_schema, inp))], shape, 0, "two-preparations", None, [])
    # one step registry used for workflow X, then for an unrelated workflow Y, then for X again (each prepared and run): the two
    # runs of X return the same, whatever Y was - a workflow with a step that has no cancellation handler, a tree whose loop names
    # the same sub-workflow file with other contents, a workflow that is refused
    from ..model import Step
    hist = []
    for k in range(check.pick(24, 120)):
        rng = random.Random(derive_seed(check.seed, "c14-hist", k))
        kind = k % 4
        scripts = {}
        if kind == 0:
            # X: a step that is stopped before it starts (stop_if delivered); Y: a step without cancellation handler
            sx = gen.plugin_step("X", gen.tagref("S2"), stop_if=Expr(Ref("S", "outputs", "success", "tag")))
            px = Program([gen.plugin_step("S", Expr(In("tag"))), gen.plugin_step("S2", gen.tagref("S")), sx], {"success": {"x": gen.tagref("X")}, "stopped": {"r": Expr(Ref("X", "closed", "result")), "s2": gen.tagref("S2")}}, gen.BASE_INPUT)
            h = gen.plugin_step("h", Expr(In("tag")), schema="nocancel")
            py = Program([h], {"success": {"h": gen.tagref("h")}}, gen.BASE_INPUT)
            scripts = {"h": {"schema": "nocancel"}}
            what = "stop_if workflow / handler-less step in between"
        elif kind == 1:
            def looptree(nsub, err):
                sub = gen.sub_program("sub.yaml", nsub, with_error_output=err)
                return Program([Step("loop", "foreach", sub=sub, items=Expr(In("items")), parallelism=rng.choice([1, 2]))], {"success": {"d": Expr(Ref("loop", "outputs", "success", "data"))}}, gen.BASE_INPUT)
            px, py = looptree(1, False), looptree(2, True)
            what = "loop over sub.yaml / other sub.yaml in between"
        elif kind == 2:
            shape, steps, outs = base_program(rng)
            px = Program(steps, outs, gen.BASE_INPUT)
            bad = gen.plugin_step("b", Expr(In("tag")))
            bad.fields["input"]["n"] = "notanint"
            py = Program([bad], {"success": {"b": gen.tagref("b")}}, gen.BASE_INPUT)
            what = "%s / refused workflow in between" % shape
        else:
            shape, steps, outs = base_program(rng)
            px = Program(steps, outs, gen.BASE_INPUT)
            shape2, steps2, outs2 = base_program(rng)
            py = Program(steps2, outs2, gen.BASE_INPUT)
            what = "%s / %s in between" % (shape, shape2)
        for pr in (px, py):
            for src, sc in gen.make_scripts(pr.steps, {}).items():
                scripts.setdefault(src, sc)
        inp = {"tag": "H%d" % k, "n": k + 1, "items": [{"tag": "H%d-i0" % k}, {"tag": "H%d-i1" % k}]}
        seq = [{"files": px.files(), "input": inp}, {"files": py.files(), "input": inp}, {"files": px.files(), "input": inp}]
        if kind == 1 and k % 8 == 1:
            # many refused preparations in between: trees whose sub-workflow's sub-workflow is refused
            SELF = 'version: v0.2.0\ninput: {root: Item, objects: {Item: {id: Item, properties: {tag: {type: {type_id: string}}}}}}\nsteps:\n  l: {kind: foreach, workflow: a.yaml, items: [{tag: x}]}\noutputs:\n  success: {d: !expr "$.steps.l.outputs.success.data"}\n'
            MAIN = SELF.replace("root: Item", "root: RootObject").replace("Item: {id: Item", "RootObject: {id: RootObject")
            BADLEAF = SELF.replace("workflow: a.yaml", "workflow: bad.yaml")
            BAD = 'version: v0.2.0\ninput: {root: Item, objects: {Item: {id: Item, properties: {tag: {type: {type_id: string}}}}}}\nsteps:\n  w: {plugin: {src: leaf_w, deployment_type: scripted}, input: {tag: !expr "$.input.nosuch"}}\noutputs:\n  success: {t: x}\n'
            # (a file that loops over itself is not used here: given to Prepare directly - not through engine.Parse, which
            # refuses it - it recurses until the stack overflows; see DESIGN 14, observations)
            refused = [{"files": {"workflow.yaml": MAIN, "a.yaml": BADLEAF, "bad.yaml": BAD}, "input": inp}] * 7
            seq = [seq[0]] + refused + [seq[2]]
            what = "loop over sub.yaml / seven refused trees in between"
        hist.append(({"id": "c14-h%04d" % k, "mode": "seq", "files": {}, "scripts": scripts, "runs": [], "extra": {"sequence": seq}, "no_events": True}, what))
        # the other way round as well: what Y returns after X must be what Y returns when it comes first
        seq2 = [seq[1], seq[0], seq[1]] if len(seq) == 3 else [seq[0], seq[-1], seq[0]]
        hist.append(({"id": "c14-h%04dr" % k, "mode": "seq", "files": {}, "scripts": scripts, "runs": [], "extra": {"sequence": seq2}, "no_events": True}, what + " (reversed)"))
    # one prepared workflow with an explicit output schema whose constraints depend on the input (minimum length, range), run
    # with inputs that satisfy and violate them in turn: each run is judged on its own data, whatever earlier runs returned
    constrained = []
    for k in range(check.pick(8, 40)):
        rng = random.Random(derive_seed(check.seed, "c14-constrained", k))
        a = gen.plugin_step("a", Expr(In("tag")))
        osch = {"success": {"schema": {"root": "R", "objects": {"R": {"id": "R", "properties": {"name": {"type": {"type_id": "string", "min": 3}}, "n": {"type": {"type_id": "integer", "max": 10}},
                                                                                                 "a": {"type": {"type_id": "string"}}}}}}}}
        prog = Program([a], {"success": {"name": Expr(In("tag")), "n": Expr(In("n")), "a": gen.tagref("a")}}, gen.BASE_INPUT, output_schema=osch)
        docs = [("alice", 1, True), ("al", 2, False), ("bob", 3, True), ("carol", 50, False), ("x", 99, False), ("dave", 10, True)]
        if k % 2:
            rng.shuffle(docs)
        if k % 4 >= 2:
            docs = [d for d in docs if d[2]][:1] + docs  # a valid one first
        case = {"id": "c14-c%04d" % k, "files": prog.files(), "scripts": gen.make_scripts([a], {}), "runs": [dict({"input": {"tag": t, "n": n}, "tag": "r%d" % q}, **({"parallel": True} if k % 3 == 2 else {})) for q, (t, n, ok) in enumerate(docs)]}
        constrained.append((case, docs))
    # one prepared workflow run with inputs of different shape in turn: every field spelled out, fields left to their defaults,
    # values that need converting ("7" for an integer); each run sees its own normalised input
    shaped = []
    for k in range(check.pick(8, 40)):
        rng = random.Random(derive_seed(check.seed, "c14-shaped", k))
        a = gen.plugin_step("a", Expr(In("tag")), extra_input={"n": Expr(In("n"))})
        prog = Program([a], {"success": {"a": gen.tagref("a"), "n": Expr(In("n")), "flag": Expr(In("flag")), "an": Expr(Ref("a", "outputs", "success", "n"))}}, gen.BASE_INPUT)
        docs = [({"tag": "full%d" % k, "n": 5, "flag": False}, 5, False), ({"tag": "dflt%d" % k}, 3, True), ({"tag": "conv%d" % k, "n": "7", "flag": "false"}, 7, False), ({"tag": "part%d" % k, "flag": True}, 3, True),
                ({"tag": "full2_%d" % k, "n": 1, "flag": True}, 1, True)]
        if k % 2:
            rng.shuffle(docs)
        if k % 4 >= 2:
            docs = [docs[0]] * 1 + docs
        case = {"id": "c14-s%04d" % k, "files": prog.files(), "scripts": gen.make_scripts([a], {}), "runs": [dict({"input": d, "tag": "r%d" % q}, **({"parallel": True} if k % 3 == 2 else {})) for q, (d, n, f) in enumerate(docs)]}
        shaped.append((case, docs))
    # expressions that read the environment (getEnvVar) with the environment changing between the runs of one prepared workflow:
    # each run returns what a first run would return at that moment
    from ..model import Call, Lit
    envcases = []
    for k in range(check.pick(4, 16)):
        var = "VERIF_C14_%d" % k
        a = gen.plugin_step("a", Expr(Call("getEnvVar", Lit(var), Lit("unset"))))
        outs = {"success": {"a": gen.tagref("a"), "e": Expr(Call("getEnvVar", Lit(var), Lit("unset"))), "l": Expr(Call("splitString", Call("getEnvVar", Lit(var), Lit("u,v")), Lit(",")))}}
        if k % 2:
            outs["success"]["c"] = Expr(Call("toUpper", Lit("constant")))
        prog = Program([a], outs, gen.BASE_INPUT)
        values = ["east", "west", "", "north,south"][: 3 + k % 2]
        case = {"id": "c14-v%04d" % k, "files": prog.files(), "scripts": gen.make_scripts([a], {}), "runs": [{"input": {"tag": "T%d" % q}, "tag": "r%d" % q, "setenv": {var: v}} for q, v in enumerate(values)]}
        envcases.append((case, values))
    # the caller overwrites everything a run returned (it owns it) before the next run of the same prepared workflow: literal lists
    # and maps of the output, whole stage results (enabling.resolved, starting.started), the echoed input - the next run returns
    # the untouched values, and a step enabled by another step's enabling result still runs
    poisoned = []
    for k in range(check.pick(6, 24)):
        first = gen.plugin_step("first", Expr(In("tag")))
        second = gen.plugin_step("second", gen.tagref("first"), enabled=Expr(Ref("first", "enabling", "resolved", "enabled")))
        outs = {"success": {"tags": ["alpha", "beta"], "consts": {"k": "v", "l": [1, 2]}, "en": Expr(Ref("first", "enabling", "resolved")), "st": Expr(Ref("first", "starting", "started")),
                            "second": gen.tagref("second"), "whole": Expr(Ref("first", "outputs", "success")), "inp": Expr(In())}}
        if k % 2:
            outs["success"]["dis"] = OrDisabled(Ref("second", "outputs", "success"))
        prog = Program([first, second], outs, gen.BASE_INPUT)
        nruns = 3 + k % 2
        case = {"id": "c14-z%04d" % k, "files": prog.files(), "scripts": gen.make_scripts([first, second], {}), "runs": [{"input": {"tag": "Z%d_%d" % (k, q)}, "tag": "r%d" % q} for q in range(nruns)],
                "extra": {"poison_results": True}}
        poisoned.append((case, nruns, k))
    stats = {"runs_checked": 0, "overlapped_groups": 0, "cancelled_runs": 0, "runs_after_failed_or_cancelled": 0, "max_overlap": 0}
    with harness.Runner() as rn:
        if not rn.hang_oracle_works():
            check.fail_broken("the hang oracle (Go runtime deadlock report) does not fire in this build")
        out = rn.run_cases(items + papi, per_case_timeout=120)
        hout = rn.run_cases([c for c, _w in hist], per_case_timeout=120)
        cout = rn.run_cases([c for c, _d in constrained], per_case_timeout=120)
        sout = rn.run_cases([c for c, _d in shaped], per_case_timeout=120)
        vout = rn.run_cases([c for c, _v in envcases], per_case_timeout=120)
        zout = rn.run_cases([c for c, _n, _k in poisoned], per_case_timeout=120)
    for case, nruns, k in poisoned:
        o = zout.get(case["id"], {})
        check.count()
        res = o.get("result") or {}
        runs = res.get("runs") or []
        if "death" in o or res.get("prepare_err") or res.get("parse_err") or len(runs) != nruns:
            check.inconclusive_case(case["id"], str(o.get("death", {}).get("key") or res.get("prepare_err") or "runs missing"))
            continue
        for q, r in enumerate(runs):
            data = ref.denum(r.get("data")) or {}
            tag = "Z%d_%d" % (k, q)
            bad = []
            if r.get("out_id") != "success":
                bad.append("returned %r / %s" % (r.get("out_id"), (r.get("err") or "")[:150]))
            else:
                if "POISONED" in json.dumps(data) or "poisoned" in json.dumps(data):
                    bad.append("the data carries values the caller wrote into the result of an earlier run")
                if data.get("tags") != ["alpha", "beta"] or data.get("consts") != {"k": "v", "l": ["1", "2"]} or data.get("en") != {"enabled": True} or data.get("second") != "second(first(%s))" % tag or (data.get("inp") or {}).get("tag") != tag:
                    bad.append("values differ from those of a first run")
            if bad:
                check.report("runs@caller-overwrote-earlier-result", "results overwritten by the caller between runs of one prepared workflow: run %d: %s; data %r" % (q, "; ".join(bad), r.get("data")), {"case": case})
                break
        stats["runs_after_overwritten_results"] = stats.get("runs_after_overwritten_results", 0) + nruns
        check.nontrivial("poisoned|%d|%d" % (nruns, k % 2))
    for case, values in envcases:
        o = vout.get(case["id"], {})
        check.count()
        res = o.get("result") or {}
        runs = res.get("runs") or []
        if "death" in o or res.get("prepare_err") or res.get("parse_err") or len(runs) != len(values):
            check.inconclusive_case(case["id"], str(o.get("death", {}).get("key") or res.get("prepare_err") or "runs missing"))
            continue
        for q, v in enumerate(values):
            data = ref.denum(runs[q].get("data")) or {}
            want_e = v if v else "unset"
            want_l = (v if v else "u,v").split(",")
            if runs[q].get("out_id") != "success" or data.get("e") != want_e or data.get("l") != want_l or data.get("a") != "a(%s)" % want_e:
                check.report("runs@environment:value-of-earlier-run", "environment variable set to %s before the runs in turn: run %d returned %r / %s, expected e=%r l=%r" % (
                    values, q, runs[q].get("data"), (runs[q].get("err") or "")[:150], want_e, want_l), {"case": case})
                break
        check.nontrivial("environment|%d" % len(values))
    for case, docs in shaped:
        o = sout.get(case["id"], {})
        check.count()
        res = o.get("result") or {}
        runs = res.get("runs") or []
        if "death" in o or res.get("prepare_err") or res.get("parse_err") or len(runs) != len(docs):
            check.inconclusive_case(case["id"], str(o.get("death", {}).get("key") or res.get("prepare_err") or "runs missing"))
            continue
        by_tag = {r.get("tag"): r for r in runs}
        for q, (d, n, f) in enumerate(docs):
            r = by_tag.get("r%d" % q) or {}
            data = ref.denum(r.get("data")) or {}
            want = {"a": "a(%s)" % d["tag"], "n": n, "flag": f, "an": n + 1}
            if r.get("out_id") != "success" or data != want:
                check.report("runs@input-shape:result-differs", "one prepared workflow run with inputs %s in turn: run %d (input %r) returned %r / %r / %s, expected %r" % (
                    [x[0] for x in docs], q, d, r.get("out_id"), r.get("data"), (r.get("err") or "")[:150], want), {"case": case})
                break
        stats["input_shape_runs"] = stats.get("input_shape_runs", 0) + len(docs)
        check.nontrivial("shaped|%d|%s" % (len(docs), [sorted(x[0]) for x in docs][:2]))
    for case, docs in constrained:
        o = cout.get(case["id"], {})
        check.count()
        res = o.get("result") or {}
        runs = res.get("runs") or []
        if "death" in o or res.get("prepare_err") or res.get("parse_err") or len(runs) != len(docs):
            check.inconclusive_case(case["id"], str(o.get("death", {}).get("key") or res.get("prepare_err") or "runs missing"))
            continue
        by_tag = {r.get("tag"): r for r in runs}
        for q, (t, n, ok) in enumerate(docs):
            r = by_tag.get("r%d" % q) or {}
            if ok and r.get("out_id") != "success":
                check.report("runs@constrained-output:valid-refused", "explicit output schema (name >= 3 characters, n <= 10), run %d of %d with (%r, %d): expected success, got %s" % (q, len(docs), t, n, (r.get("err") or r.get("out_id"))[:200]), {"case": case})
            elif not ok and r.get("out_id"):
                check.report("runs@constrained-output:invalid-returned", "explicit output schema (name >= 3 characters, n <= 10), run %d of %d with (%r, %d): data that violates the schema was returned as output %r: %r (inputs in order: %s)" % (
                    q, len(docs), t, n, r.get("out_id"), r.get("data"), [(d[0], d[1]) for d in docs]), {"case": case})
        stats["constrained_output_runs"] = stats.get("constrained_output_runs", 0) + len(docs)
        check.nontrivial("constrained|%s" % [d[2] for d in docs])
    def triple(r):
        return (r.get("out_id"), ref.denum(r.get("data")), r.get("err_type") if r.get("err") else None)
    for (case, what), (case_r, _w) in zip(hist[0::2], hist[1::2]):
        ra, rb = ((hout.get(c["id"], {}).get("result") or {}).get("runs") or [] for c in (case, case_r))
        if len(ra) == 3 and len(rb) == 3 and len((case.get("extra") or {}).get("sequence") or []) == 3:
            # X first (ra[0]) vs X after Y (rb[1]); Y first (rb[0]) vs Y after X (ra[1])
            for label, fresh, later in (("X", ra[0], rb[1]), ("Y", rb[0], ra[1])):
                if triple(fresh) != triple(later):
                    check.report("runs@history:result-depends-on-earlier-workflow", "%s: workflow %s returns %r when it is the first one of its step registry and %r after the other workflow was prepared and run (%s)" % (
                        what, label, triple(fresh), triple(later), (later.get("err") or fresh.get("err") or "")[:200]), {"case": case, "reversed": case_r})
    for case, what in hist:
        o = hout.get(case["id"], {})
        check.count()
        runs = (o.get("result") or {}).get("runs") or []
        if "death" in o or len(runs) != len(case["extra"]["sequence"]):
            check.inconclusive_case(case["id"], str(o.get("death", {}).get("key") or "sequence incomplete"))
            continue
        first, again = triple(runs[0]), triple(runs[-1])
        runs = [runs[0], runs[1], runs[-1]]
        if first != again:
            check.report("runs@history:result-differs", "workflow prepared and run, then another one, then the first again through one step registry (%s): first %r, again %r (%s)" % (
                what, first, again, (runs[2].get("err") or runs[0].get("err") or "")[:200]), {"case": case})
        stats["history_sequences"] = stats.get("history_sequences", 0) + 1
        check.nontrivial("history|" + what.split(" / ")[1])
    for cid in sorted(out):
        o = out[cid]
        prog, sems, shape, N, mode, cancelled, fails = metas[cid]
        check.count()
        case = [c for c in items + papi if c["id"] == cid][0]
        if "death" in o:
            d = o["death"]
            if d["kind"] == "deadlock":
                check.report("runs@hang", "group of runs hung (%s N=%d %s): %s" % (shape, N, mode, d["key"]), {"case": case, "detail": d.get("detail", "")[:3000]})
            else:
                check.inconclusive_case(cid, "%s %s" % (d["kind"], d["key"]))
            continue
        res = o["result"]
        if res.get("parse_err") or res.get("prepare_err"):
            check.extra["rejected"] = check.extra.get("rejected", 0) + 1
            continue
        runs = res.get("runs") or []
        if mode == "two-preparations":
            exp = sems[0].result()
            for rr in runs:
                stats["runs_checked"] += 1
                v = compare(exp, rr)
                if v:
                    check.report("runs@two-preparations:" + v[0], "%s (worker run %s): %s" % (shape, rr.get("tag"), v[1]), {"case": case, "run": rr})
            check.nontrivial("%s|papi" % shape)
            continue
        tags = [r["tag"] for r in case["runs"]]
        failed_before = False
        for r, rr in enumerate(runs):
            if r == cancelled:
                stats["cancelled_runs"] += 1
                failed_before = True
                continue
            stats["runs_checked"] += 1
            if failed_before and not case["runs"][r].get("parallel"):
                stats["runs_after_failed_or_cancelled"] += 1
            exp = sems[r].result()
            v = compare(exp, rr)
            if v:
                check.report("runs@%s:%s" % (mode, v[0]), "%s N=%d %s, run %d (tag %s): %s" % (shape, N, mode, r, tags[r], v[1]), {"case": case, "run": rr, "result": runfam.strip(res, 200)})
            if rr.get("err"):
                failed_before = True
        if shape == "engine_messages":
            texts = {}
            for r, rr in enumerate(runs):
                if r != cancelled:
                    texts.setdefault(json.dumps([rr.get("out_id"), ref.denum(rr.get("data")), bool(rr.get("err"))], sort_keys=True, default=str), []).append(tags[r])
            stats["message_results_compared"] = stats.get("message_results_compared", 0) + sum(len(v) for v in texts.values())
            if len(texts) > 1:
                check.report("runs@engine-text-varies", "%s N=%d %s: runs with equal inputs (but for their tag) returned different engine-composed texts: %s" % (
                    shape, N, mode, [(k[:200], v[:3]) for k, v in texts.items()][:3]), {"case": case, "result": runfam.strip(res, 200)})
        if shape == "oneof_ordered":
            which = {}
            for r, rr in enumerate(runs):
                d = rr.get("data")
                if r != cancelled and rr.get("out_id") == "success" and isinstance(d, dict) and isinstance(d.get("winner"), dict):
                    which.setdefault(str(d["winner"].get("which")), []).append(tags[r])
            stats["oneof_choices_compared"] = stats.get("oneof_choices_compared", 0) + sum(len(v) for v in which.values())
            if len(which) > 1:
                check.report("runs@oneof-choice-varies", "%s N=%d %s: runs of one prepared workflow whose alternatives are produced in a fixed order chose different alternatives: %s" % (
                    shape, N, mode, {k: v[:4] for k, v in which.items()}), {"case": case, "result": runfam.strip(res, 200)})
        # isolation at the plugin boundary: every input value carries exactly one run's tag
        for e in res.get("events") or []:
            if e["kind"] == "exec-start":
                blob = str((e.get("data") or {}).get("input"))
                present = [t for t in tags if t in blob]
                if len(present) > 1:
                    check.report("runs@foreign-data", "%s N=%d %s: plugin %s received an input mixing data of runs %s: %s" % (shape, N, mode, e["src"], present, blob[:300]), {"case": case, "event": e})
        if mode.startswith("overlapped") or mode == "mixed":
            stats["overlapped_groups"] += 1
            stats["max_overlap"] = max(stats["max_overlap"], overlap(res))
        check.nontrivial("%s|%d|%s|%s" % (shape, N, mode, fails))
        if len(check.samples) < 3 and mode != "sequential":
            check.sample({"case": cid, "shape": shape, "N": N, "mode": mode, "cancelled_run": cancelled, "results": [(r.get("tag"), r.get("out_id") or r.get("err_type")) for r in runs][:8]})
    check.extra.update(stats)


def compare(exp, rr):
    out_id, err = rr.get("out_id") or "", rr.get("err") or ""
    if exp["avail"]:
        if err:
            if "this is the fallback system" in err:
                # the stuck-workflow detector ended a healthy run (its timing assumption, see the C09 finding)
                return ("fallback-abort-although-producible", "run ended by the fallback stuck-workflow detector (%s) although %s producible" % (err[:120], sorted(exp["avail"])))
            return ("error-but-producible", "run failed (%s) although %s producible" % (err[:150], sorted(exp["avail"])))
        if out_id not in exp["avail"]:
            return ("unproducible-output", "returned %r, producible %s" % (out_id, sorted(exp["avail"])))
        m = ref.match(exp["avail"][out_id], ref.denum(rr.get("data")))
        if m:
            return ("data", "output %r differs from an isolated run: %s" % (out_id, m))
    elif not exp["pending"] and not err:
        return ("output-but-none-producible", "returned %r although nothing producible" % out_id)
    return None


def overlap(res):
    cur = mx = 0
    for e in res.get("events") or []:
        if e["kind"] == "execute-call":
            cur += 1
            mx = max(mx, cur)
        elif e["kind"] == "execute-return":
            cur -= 1
    return mx
