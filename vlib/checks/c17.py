"""C17 - no data races in the engine on any explored schedule (Go race detector)."""
import random

from .. import cancelfam, gen, harness, mon, ref, runfam
from ..core import Check, derive_seed


def run(check):
    check.rule = ("the runner is rebuilt with -race (instrumented engine files included) and executes: generated run-mode cases of all shapes with failures, "
                  "random delay plans, cancellation at logical instants, stop conditions (before start, while running, before deployment), overlapping Execute calls on one prepared workflow, outputs that need no step next to steps being launched, input schemas with references between their objects under overlapping runs and parallel loop items, the engine API parsing one file cache object from several goroutines, and the parallel-API workload "
                  "(several goroutines doing FromYAML+Prepare+Execute of equal texts, sharing one step registry), also as the very first action of a fresh process; GORACE=halt_on_error=0 log_path=..., reports "
                  "are counted from the log files and de-duplicated by the innermost engine frame pair; a report is a violation if either stack has a frame of "
                  "go.flow.arcalot.io/engine outside the harness; non-trivial/distinct = distinct (workload family, shape) executed under the detector")
    check.assumptions = ["the race detector only sees executed interleavings and has a bounded history window"]
    n = check.pick(120, 1500)
    items = []
    for i in range(n):
        rng = random.Random(derive_seed(check.seed, "c17", i))
        g = runfam.gen_terminating(check.seed, "c17-%d" % i, p_fail=0.3, error_outputs=(i % 4 == 0))
        if g is None:
            continue
        opts = {"no_events": True}
        r = rng.random()
        fam = "run"
        if r < 0.3:
            opts["plan"] = {"seed": rng.randrange(1 << 30), "prob": 60, "choices": [-1, 1, 3], "max_acts": 20}
            opts["plan_scope"] = "execute"
            fam = "run+delays"
        case, sem = runfam.build_case("c17-%05d" % i, g, **opts)
        if r >= 0.3 and r < 0.5:
            k = rng.choice([2, 4, 8])
            case["runs"] = [{"input": g["input"], "parallel": True, "tag": "r%d" % j} for j in range(k)]
            fam = "overlap%d" % k
        elif r >= 0.5 and r < 0.7:
            case["mode"] = "papi"
            case["extra"] = {"workers": rng.choice([2, 4, 6]), "iterations": 2, "share_prepared": rng.random() < 0.3}
            fam = "papi"
        g["family"] = fam
        items.append((case, sem, g))
    # dedicated workloads: many equal steps finishing at the same moment, and many loop items failing at the same moment
    from ..model import Expr, In, Ref, Program, Step, Opt
    for j in range(check.pick(240, 800)):
        rng = random.Random(derive_seed(check.seed, "c17-sim", j))
        if j % 4 != 1:
            k = rng.choice([2, 3, 4, 8, 12, 16])
            steps, outs = gen.shape_fan_in(rng, k)
            prog = Program(steps, outs, gen.BASE_INPUT)
            scripts = gen.make_scripts(steps, {})
            for st in steps:
                scripts[st.src]["exec"] = {"outcome": "success", "gate": "go"}  # all executions are released together
            g = {"program": prog, "scripts": scripts, "input": {"tag": "T"}, "shape": "fan_in-simultaneous", "family": "simultaneous-completion", "outcome": {},
                 "triggers": [{"kind": "exec-start", "src": "", "nth": k, "action": "open:go"}]}
        else:
            sub = gen.sub_program("sub.yaml", 1)
            fe = Step("loop", "foreach", sub=sub, items=Expr(In("items")), parallelism=rng.choice([4, 16]))
            prog = Program([fe], {"success": {"d": Expr(Ref("loop", "outputs", "success", "data"))}, "failed": {"e": Expr(Ref("loop", "failed", "error"))}}, gen.BASE_INPUT)
            scripts = gen.make_scripts([fe], {})
            scripts["sub_w0"]["exec"] = {"outcome": rng.choice(["crash", "error"])}
            g = {"program": prog, "scripts": scripts, "input": {"tag": "T", "items": [{"tag": "i%d" % k} for k in range(16)]}, "shape": "foreach-all-items-fail", "family": "loop-failing-items", "outcome": {}}
        case, sem = runfam.build_case("c17-s%04d" % j, g, no_events=True)
        if g.get("triggers"):
            case["triggers"] = g["triggers"]
        elif j % 8 == 1:
            case["runs"] = [{"input": g["input"], "parallel": True, "tag": "r%d" % q} for q in range(3)]
        items.append((case, sem, g))
    # expression functions evaluated by overlapping runs and by parallel loop items (the function objects are shared)
    from ..model import Call, Bin, Lit
    for j in range(check.pick(30, 150)):
        rng = random.Random(derive_seed(check.seed, "c17-fn", j))
        fexprs = {"ff": Call("floatToFormattedString", Call("intToFloat", In("n")), Lit("f"), Lit(3)), "fs": Call("floatToString", Call("intToFloat", In("n"))),
                  "up": Call("toUpper", In("tag")), "is": Call("intToString", In("n")), "sp": Call("splitString", In("tag"), Lit("T")), "bc": Call("bindConstants", In("items"), In("tag")),
                  "fe": Call("floatToFormattedString", Bin("*", Call("intToFloat", In("n")), Lit(1.5)), Lit("e"), Lit(5))}
        if j % 2 == 0:
            a = gen.plugin_step("a", Expr(Call("toUpper", In("tag"))))
            prog = Program([a], {"success": dict({k: Expr(v) for k, v in fexprs.items()}, a=gen.tagref("a"))}, gen.BASE_INPUT)
            g = {"program": prog, "scripts": gen.make_scripts([a], {}), "input": {"tag": "T", "n": 7, "items": [{"tag": "i0"}]}, "shape": "functions-in-overlapping-runs", "family": "functions", "outcome": {}}
            case, sem = runfam.build_case("c17-n%04d" % j, g, no_events=True)
            case["runs"] = [{"input": {"tag": "T%d" % q, "n": q, "items": [{"tag": "i%d" % q}]}, "parallel": True, "tag": "r%d" % q} for q in range(rng.choice([4, 8]))]
        else:
            sub = Program([gen.plugin_step("w0", Expr(Call("toUpper", In("tag"))), src="sub_w0")],
                          {"success": {"t": gen.tagref("w0"), "ff": Expr(Call("floatToFormattedString", Lit(2.5), Lit("f"), Lit(3))), "fs": Expr(Call("floatToString", Lit(0.125))), "lo": Expr(Call("toLower", In("tag")))}},
                          gen.SUB_INPUT, name="sub.yaml")
            fe = Step("loop", "foreach", sub=sub, items=Expr(In("items")), parallelism=8)
            prog = Program([fe], {"success": {"d": Expr(Ref("loop", "outputs", "success", "data"))}}, gen.BASE_INPUT)
            g = {"program": prog, "scripts": gen.make_scripts([fe], {}), "input": {"tag": "T", "items": [{"tag": "i%d" % q} for q in range(16)]}, "shape": "functions-in-parallel-loop-items", "family": "functions", "outcome": {}}
            case, sem = runfam.build_case("c17-n%04d" % j, g, no_events=True)
        items.append((case, sem, g))
    # an output that needs no step (workflow input and constants only) next to steps that are being launched; and input schemas
    # whose objects refer to each other, used by overlapping runs and by parallel loop items (the schema objects are shared)
    from ..model import InputSchema
    for j in range(check.pick(90, 400)):
        rng = random.Random(derive_seed(check.seed, "c17-early", j))
        if j % 3 == 0:
            k = rng.choice([1, 2, 4, 8])
            steps = [gen.plugin_step("p%d" % q, Expr(In("tag"))) for q in range(k)]
            outs = {"early": {"t": Expr(In("tag")), "c": "constant"}}
            if rng.random() < 0.5:
                outs["success"] = {"p": gen.tagref("p0")}
            g = {"program": Program(steps, outs, gen.BASE_INPUT), "scripts": gen.make_scripts(steps, {}), "input": {"tag": "T"}, "shape": "output-without-steps/%d-steps" % k, "family": "output-ready-at-start", "outcome": {}}
            case, sem = runfam.build_case("c17-e%04d" % j, g, no_events=True)
            if j % 2:
                case["runs"] = [{"input": g["input"], "parallel": True, "tag": "r%d" % q} for q in range(3)]
        elif j % 3 == 1:
            isch = InputSchema({"tag": {"type": "string"}, "cfg": {"type": ("ref", "Cfg")}, "more": {"type": ("list", ("ref", "Cfg")), "required": False}}, objects={"Cfg": {"tag": {"type": "string"}, "n": {"type": "integer", "required": False, "default": 1}}})
            a = gen.plugin_step("a", Expr(In("cfg", "tag")), extra_input={"n": Expr(In("cfg", "n"))})
            g = {"program": Program([a], {"success": {"a": gen.tagref("a")}}, isch), "scripts": gen.make_scripts([a], {}), "input": {"tag": "T", "cfg": {"tag": "c"}, "more": [{"tag": "m"}]},
                 "shape": "self-referencing-input-schema/overlapping-runs", "family": "self-referencing-input", "outcome": {}}
            case, sem = runfam.build_case("c17-e%04d" % j, g, no_events=True)
            case["runs"] = [{"input": {"tag": "T%d" % q, "cfg": {"tag": "c%d" % q}}, "parallel": True, "tag": "r%d" % q} for q in range(rng.choice([4, 8]))]
        else:
            ssch = InputSchema({"tag": {"type": "string"}, "cfg": {"type": ("ref", "Cfg"), "required": False}}, root="Item", objects={"Cfg": {"k": {"type": "string"}}})
            sub = Program([gen.plugin_step("w0", Expr(In("tag")), src="sub_w0")], {"success": {"t": gen.tagref("w0")}}, ssch, name="sub.yaml")
            nn = rng.choice([8, 16])
            fe = Step("loop", "foreach", sub=sub, items=[{"tag": "i%d" % q, "cfg": {"k": "v"}} for q in range(nn)], parallelism=rng.choice([4, 8]))
            g = {"program": Program([fe], {"success": {"d": Expr(Ref("loop", "outputs", "success", "data"))}}, gen.BASE_INPUT), "scripts": gen.make_scripts([fe], {}), "input": {"tag": "T"},
                 "shape": "self-referencing-input-schema/parallel-loop-items", "family": "self-referencing-input", "outcome": {}}
            case, sem = runfam.build_case("c17-e%04d" % j, g, no_events=True)
        items.append((case, sem, g))
    # several goroutines parse (and run) one file cache object through the engine API at once (trees with loops, so that there are
    # sub-workflow files to collect)
    for j in range(check.pick(12, 60)):
        rng = random.Random(derive_seed(check.seed, "c17-engine-par", j))
        steps, outs = gen.SHAPES[rng.choice(["foreach", "foreach_after"])](rng)
        prog = Program(steps, outs, gen.BASE_INPUT)
        g = {"program": prog, "scripts": gen.make_scripts(steps, {}), "input": gen.base_input(rng, 2), "shape": "engine-api-parallel-parse", "family": "engine-parallel-parse", "outcome": {}}
        case, sem = runfam.build_case("c17-g%04d" % j, g, no_events=True)
        case["mode"] = "engine"
        case["extra"] = {"engine": {"cache": "context", "parallel_parses": rng.choice([3, 6])}}
        items.append((case, sem, g))
    # stop conditions reaching a step while it waits for input, while it runs, and while it waits for its deployment configuration
    from . import c04
    for j in range(check.pick(45, 240)):
        kind = j % 3
        if kind == 0:
            g, trig = c04.two_hop_stop(check, 7000 + j), None
        elif kind == 1:
            g, trig = c04.stop_while_running(check, 7000 + j)
        else:
            g, trig = c04.stopped_before_deployment(check, 7000 + j)
        g["family"] = "stop-condition"
        case, sem = runfam.build_case("c17-x%04d" % j, g, no_events=True, **({"triggers": trig} if trig else {}))
        items.append((case, sem, g))
    stats = {"families": {}}
    with harness.Runner(race=True) as rn:
        cc = cancelfam.cancel_cases(check, rn, "c17c", check.pick(4, 12), check.pick(len(cancelfam.NEVER_ENDING), 3 * len(cancelfam.NEVER_ENDING)), kmax_quick=6)
        for c, s, g in cc:
            c["no_events"] = True
            g["family"] = "cancel"
        items += cc
        # a loop with one failed item, cancelled while other items are still executing (what the loop has handed on must not
        # be written any more)
        for j in range(check.pick(24, 120)):
            rng = random.Random(derive_seed(check.seed, "c17-partial", j))
            prog, scripts, name = cancelfam.prog_foreach_partial(rng)
            g = {"program": prog, "scripts": scripts, "input": cancelfam.base_input(rng), "shape": name, "family": "cancel-partly-failed-loop", "outcome": {}}
            case, sem = runfam.build_case("c17-p%04d" % j, g, no_events=True, triggers=[{"kind": "exec-start", "src": "sub_w0", "nth": 2, "action": "cancel:0"}])  # two executions are certain (parallelism >= 2); which items get the slots is not
            items.append((case, sem, g))
        out = rn.run_cases([c for c, _s, _g in items], per_case_timeout=75)
        # the very first parses of a process made by several goroutines at once (lazily built package-level state):
        # one child process per case
        first = []
        for j in range(check.pick(10, 40)):
            rng = random.Random(derive_seed(check.seed, "c17-first", j))
            g = runfam.gen_terminating(check.seed, "c17-first-%d" % j, p_fail=0.0)
            if g is None:
                continue
            case, sem = runfam.build_case("c17-f%04d" % j, g, no_events=True)
            case["mode"] = "papi"
            case["extra"] = {"workers": rng.choice([4, 8, 12]), "iterations": 1, "share_prepared": False}
            g["family"] = "first-parse-in-parallel"
            first.append((case, sem, g))
        # overlapping runs in which steps fail to deploy and crash at the same moment, as the first thing a fresh process does
        # (the engine's failure reports are converted by code that may build package-level state lazily)
        for j in range(check.pick(10, 40)):
            rng = random.Random(derive_seed(check.seed, "c17-first-fault", j))
            k = rng.choice([2, 3, 4])
            steps = [gen.plugin_step("f%d" % q, Expr(In("tag"))) for q in range(k)]
            outs = {"report": dict({"d%d" % q: Opt(Ref("f%d" % q, "deploy_failed", "error"), True) for q in range(k)}, **{"c%d" % q: Opt(Ref("f%d" % q, "crashed", "error"), True) for q in range(k)})}
            oc = {"f%d" % q: ("deployfail" if (q + j) % 2 else "crash") for q in range(k)}
            g = {"program": Program(steps, outs, gen.BASE_INPUT), "scripts": gen.make_scripts(steps, oc), "input": {"tag": "T"}, "shape": "failure-reports-in-overlapping-runs", "family": "first-failure-reports-in-parallel", "outcome": oc}
            case, sem = runfam.build_case("c17-ff%04d" % j, g, no_events=True)
            case["runs"] = [{"input": {"tag": "T%d" % q}, "parallel": True, "tag": "r%d" % q} for q in range(rng.choice([4, 8]))]
            first.append((case, sem, g))
        items += first
        out.update(rn.run_cases([c for c, _s, _g in first], per_case_timeout=75, chunk=1))
        reports = list(rn.race_reports)
    by_id = {c["id"]: (c, s, g) for c, s, g in items}
    for cid, o in sorted(out.items()):
        case, sem, g = by_id[cid]
        check.count()
        fam = g.get("family", "run")
        stats["families"][fam] = stats["families"].get(fam, 0) + 1
        if "death" in o:
            d = o["death"]
            if d["kind"] == "fatal" and "concurrent map" in d.get("message", ""):
                check.report("fatal@" + d["key"], "concurrent map access aborted case %s" % cid, {"case": case, "detail": d.get("detail", "")[:3000]})
            else:
                check.inconclusive_case(cid, "%s %s" % (d["kind"], d["key"]))
            continue
        check.nontrivial("%s|%s" % (fam, g.get("shape", "").split("/cancel@")[0]))
    seen = {}
    third = {}
    for rep in reports:
        key = harness.race_key(rep)
        if harness.race_is_engine(rep):
            seen.setdefault(key, []).append(rep)
        else:
            third.setdefault(key, []).append(rep)
    for key, reps in sorted(seen.items()):
        rep = reps[0]
        check.report(key, "data race (%d report(s)): %s" % (len(reps), " / ".join("%s in %s" % (st["op"], (st["frames"] or ["?"])[0]) for st in rep["stacks"][:2])),
                     {"report": rep["text"], "cases": rep.get("cases", [])[:10]})
    check.extra.update(stats)
    check.extra["race_reports_total"] = len(reports)
    check.extra["race_reports_engine_distinct"] = len(seen)
    check.extra["race_reports_outside_engine"] = {k: len(v) for k, v in third.items()}
    check.sample({"workloads": stats["families"], "reports": len(reports)})
    for key, reps in list(third.items())[:2]:
        check.sample({"third_party_race": key, "text": reps[0]["text"][:1500]})
