"""C10 - preparation builds exactly the dependency graph the workflow text implies."""
import copy
import random

from .. import dagref, gen, harness, mon, ref, runfam
from ..core import Check, derive_seed
from ..model import Expr, In, Ref, Not, Lit, Bin, Program, Step, OneOf, Opt, OrDisabled, RawYAML


def tagged_program(rng):
    """A program with tags in step inputs and outputs (group nodes)."""
    a = gen.plugin_step("a", Expr(In("tag")), enabled=Expr(In("flag")))
    b = gen.plugin_step("b", Expr(In("tag")))
    c = gen.plugin_step("c", Expr(In("tag")), extra_input={"a": {"x": Opt(Ref("a", "outputs", "success", "tag"), rng.random() < 0.5),
                                                              "y": [OneOf("kind", {"ra": Expr(Ref("a", "outputs", "success")), "rb": Expr(Ref("b", "outputs", "success"))})]}})
    outs = {"success": {"c": gen.tagref("c"), "od": OrDisabled(Ref("a", "outputs", "success")), "opt": {"inner": Opt(Ref("b", "outputs", "error", "reason"), rng.random() < 0.5)}}}
    if rng.random() < 0.7:
        # optional-tagged and ordinary keys side by side in one map (at two levels)
        outs["success"]["opt"].update({"plain": gen.tagref("b"), "k": "lit", "z_last": Expr(In("n"))})
        outs["success"]["top_opt"] = Opt(Ref("a", "outputs", "success", "tag"), rng.random() < 0.5)
    if rng.random() < 0.5:
        c.fields["wait_for"] = {"w": Opt(Ref("b", "outputs", "success"), True)}
        # same relative path in two fields of one stage would collide on the group id: use distinct keys
    return [a, b, c], outs


def programs(check, n):
    out = []
    for i in range(n):
        rng = random.Random(derive_seed(check.seed, "c10", i))
        if i % 5 == 0:
            steps, outs = tagged_program(rng)
            shape = "tagged"
        else:
            # every fifth program has expressions with several references into one node (order-sensitive dependency building)
            shape = "multiref" if i % 5 == 1 else rng.choice([s for s in gen.SHAPES])
            steps, outs = gen.SHAPES[shape](rng)
            if rng.random() < 0.3:
                gen.add_error_outputs(rng, steps, outs, {})
            if rng.random() < 0.2 and any(s.kind == "plugin" for s in steps) and len(steps) > 1:
                tgt = [s for s in steps if s.kind == "plugin"][-1]
                src = [s for s in steps if s.kind == "plugin"][0]
                if tgt is not src:
                    tgt.fields["stop_if"] = Expr(Ref(src.name, "outputs", "error"))
        isch = gen.BASE_INPUT
        plugins = [s_ for s_ in steps if s_.kind == "plugin" and s_.schema == "work"]
        if i % 5 == 2 and len(plugins) >= 2:
            # the workflow input refers to an object in the namespace of one of several steps
            from ..model import InputSchema
            tgt = plugins[rng.randrange(len(plugins))]
            props = dict(gen.BASE_INPUT.props)
            props["w"] = {"type": ("ref", "WorkInput", "$.steps.%s.starting.inputs.input" % tgt.name), "required": False}
            isch = InputSchema(props, root=gen.BASE_INPUT.root, objects=dict(gen.BASE_INPUT.objects))
            shape += "+namespaced-input-ref"
        out.append({"program": Program(steps, outs, isch), "shape": shape})
    return out


def corruptions(g, rng):
    """Single-point corruptions of a program; each must be rejected. Yields (kind, program)."""
    prog = g["program"]
    plugin_steps = [s for s in prog.steps if s.kind == "plugin"]
    if not plugin_steps:
        return

    def clone():
        return copy.deepcopy(prog)

    first, last = plugin_steps[0], plugin_steps[-1]
    # cycles through each field kind (last step's output fed back into the first step)
    if len(plugin_steps) >= 2 and depends_on(prog, last.name, first.name):
        for f, tree in (("wait_for", Expr(Ref(last.name, "outputs", "success"))), ("enabled", Expr(Bin("==", Ref(last.name, "outputs", "success", "tag"), Lit("x")))),
                        ("stop_if", Expr(Ref(last.name, "outputs", "success"))), ("deploy", {"deployer_name": "scripted", "tag": gen.tagref(last.name)})):
            p = clone()
            p.step(first.name).fields[f] = tree
            yield "cycle-through-" + f, p
        p = clone()
        p.step(first.name).fields["input"]["a"] = Expr(Ref(last.name, "outputs", "success"))
        yield "cycle-through-input", p
    p = clone()
    p.step(first.name).fields["input"]["a"] = Expr(Ref(first.name, "outputs", "success"))
    yield "self-reference", p
    # dangling references
    for kind, r in (("unknown-step", Ref("nosuchstep", "outputs", "success", "tag")), ("unknown-stage", Ref(first.name, "nosuchstage", "success", "tag")),
                    ("unknown-output", Ref(first.name, "outputs", "nosuchoutput", "tag")), ("unknown-field", Ref(first.name, "outputs", "success", "nosuchfield")),
                    ("unknown-input-field", In("nosuchinput"))):
        p = clone()
        p.step(last.name).fields["input"]["a"] = Expr(r)
        yield "dangling-" + kind + "@step-input", p
        p = clone()
        p.outputs["extra"] = {"v": Expr(r)}
        yield "dangling-" + kind + "@output", p
    # ill-typed literals and expressions
    for kind, field, val in (("literal-int", "n", "notanint"), ("literal-bool", "b", "maybe"), ("literal-list", "l", "scalar"), ("literal-object", "o", "scalar"),
                             ("literal-string", "tag", ["a", "list"]), ("literal-float", "f", "x.y"), ("expr-string-for-int", "n", Expr(In("tag"))),
                             ("expr-object-for-string", "tag", Expr(Ref(first.name, "outputs", "success"))), ("expr-bool-for-list", "l", Expr(In("flag"))),
                             ("unknown-input-key", "zzz", "v")):
        p = clone()
        tgt = p.step(last.name) if last is not first or kind != "expr-object-for-string" else None
        if tgt is None:
            continue
        tgt.fields["input"][field] = val
        yield "illtyped-" + kind, p
    # a step that a constant switches off is checked like any other: ill-typed and missing inputs of that very step
    for spelling in (False, "false", "no", 0):
        for kind, mut in (("literal-int", lambda st: st.fields["input"].__setitem__("n", "notanint")), ("missing-required-input", lambda st: st.fields["input"].pop("tag", None)),
                          ("unknown-input-key", lambda st: st.fields["input"].__setitem__("zzz", "v")), ("no-input-at-all", lambda st: st.fields.pop("input", None))):
            p = clone()
            tgt = p.step(last.name)
            tgt.fields["enabled"] = spelling
            mut(tgt)
            yield "illtyped-%s-on-step-disabled-by-%r" % (kind, spelling), p
        break_after_first = False
    for s_ in prog.steps:
        if s_.kind == "foreach":
            for kind, mut in (("items-missing", lambda st: st.fields.pop("items", None)), ("item-wrong-type", lambda st: st.fields.__setitem__("items", [{"tag": ["x"]}])), ("parallelism-text", lambda st: st.fields.__setitem__("parallelism", "many"))):
                p = clone()
                tgt = p.step(s_.name)
                tgt.fields["enabled"] = False
                mut(tgt)
                yield "illtyped-%s-on-loop-disabled-by-constant" % kind, p
            break
    # cycles closed by a reference under an optional tag (nothing waits for a soft-optional value, yet it is a reference)
    if len(plugin_steps) >= 2 and depends_on(prog, last.name, first.name):
        from ..model import Opt as _Opt
        for wait in (False, True):
            for f in ("wait_for", "input.a", "stop_if"):
                p = clone()
                node = {"later": _Opt(Ref(last.name, "outputs", "success"), wait)}
                if f == "input.a":
                    p.step(first.name).fields["input"]["a"] = node
                else:
                    p.step(first.name).fields[f] = node
                yield "cycle-through-%s-optional-in-%s" % ("wait" if wait else "soft", f), p
    # optional members are typed like plain ones: a value that may be absent at run time must still fit when it is present
    if last is not first:
        from ..model import Opt
        for kind, field, node in (("wait-optional-string-for-int", "n", Opt(Ref(first.name, "outputs", "success", "tag"), True)),
                                  ("soft-optional-string-for-int", "n", Opt(Ref(first.name, "outputs", "success", "tag"), False)),
                                  ("wait-optional-object-for-bool", "b", Opt(Ref(first.name, "outputs", "success"), True)),
                                  ("wait-optional-input-string-for-list", "l", Opt(In("tag"), True))):
            p = clone()
            p.step(last.name).fields["input"][field] = node
            yield "illtyped-" + kind, p
    # a list literal whose first item is fine and a later one is not (items of every position have to be checked)
    for kind, lst in (("map-item", ["fine", {"a": "map"}]), ("list-item", ["fine", "also", ["nested"]]), ("expr-object-item", ["fine", Expr(Ref(first.name, "outputs", "success"))]),
                      ("expr-bool-item", [Expr(In("tag")), Expr(In("flag"))])):
        if last is first and kind == "expr-object-item":
            continue
        p = clone()
        p.step(last.name).fields["input"]["l"] = lst
        yield "illtyped-later-list-" + kind, p
    for s_ in prog.steps:
        if s_.kind == "foreach":
            for kind, lst in (("missing-field", [{"tag": "a"}, {}]), ("wrong-type", [{"tag": "a"}, {"tag": ["x"]}]), ("unknown-field", [{"tag": "a"}, {"tag": "b", "zz": 1}]),
                              ("scalar-item", [{"tag": "a"}, {"tag": "b"}, [1]])):
                p = clone()
                p.step(s_.name).fields["items"] = lst
                yield "illtyped-later-foreach-item-" + kind, p
            break
    p = clone()
    del p.step(last.name).fields["input"]["tag"]
    yield "missing-required-input", p
    for s_ in prog.steps:
        if s_.kind == "foreach":
            p = clone()
            del p.step(s_.name).fields["items"]
            yield "missing-required-foreach-items", p
            break
    # stage inputs that the provider of this very step does not offer: stop_if on a step whose plugin has no cancellation handler
    if last is not first:
        for kind, val in (("constant", False), ("expr", Expr(Ref(first.name, "outputs", "error"))), ("input-expr", Expr(In("flag")))):
            p = clone()
            p.step(last.name).schema = "nocancel"
            p.step(last.name).fields["stop_if"] = val
            p.scripts_needed = {p.step(last.name).src: {"schema": "nocancel"}}
            yield "stop-if-without-cancel-handler-" + kind, p
    p = clone()
    p.step(last.name).fields["enabled"] = Expr(In("tag"))
    yield "illtyped-enabled-string", p
    # the other stage inputs that may be left out: a value given for them is checked like any other
    for kind, field, val in (("closure-timeout-text", "closure_wait_timeout", "soon"), ("closure-timeout-string-expr", "closure_wait_timeout", Expr(In("tag"))),
                             ("enabled-list", "enabled", ["a"]), ("deploy-unknown-field", "deploy", {"deployer_name": "scripted", "nosuchfield": 1}),
                             ("deploy-tag-object-expr", "deploy", {"deployer_name": "scripted", "tag": Expr(Ref(first.name, "outputs", "success"))})):
        if last is first and "object-expr" in kind:
            continue
        p = clone()
        p.step(last.name).fields[field] = val
        yield "illtyped-" + kind, p
    for s_ in prog.steps:
        if s_.kind == "foreach":
            for kind, val in (("parallelism-text", "many"), ("parallelism-string-expr", Expr(In("tag")))):
                p = clone()
                p.step(s_.name).fields["parallelism"] = val
                yield "illtyped-" + kind, p
            break
    # a list literal in an output whose later items have another type than the first
    if last is not first:
        p = clone()
        p.outputs["extra"] = {"v": [gen.tagref(first.name), "a constant", Expr(Ref(last.name, "outputs", "success"))]}
        yield "illtyped-output-list-mixed", p
    p = clone()
    p.step(last.name).step = "nosuchpluginstep"
    yield "wrong-step", p
    p = clone()
    p.step(last.name).fields["unknown_field"] = "x"
    yield "unknown-step-field", p
    p = clone()
    p.outputs = {}
    yield "no-outputs", p


def depends_on(prog, a, b):
    """True if step a (transitively) refers to the finished `outputs` stage of step b."""
    from ..model import walk_tree, node_refs
    seen, todo = set(), [a]
    while todo:
        x = todo.pop()
        if x in seen:
            continue
        seen.add(x)
        try:
            s = prog.step(x)
        except KeyError:
            continue
        for tree in s.fields.values():
            def fn(node, path):
                n = getattr(node, "node", None) or getattr(node, "ref", None)
                if n is not None:
                    for r in node_refs(n):
                        if isinstance(r, Ref) and r.stage == "outputs":
                            todo.append(r.step)
            walk_tree(tree, fn)
    return b in seen and a != b


def run(check):
    n = check.pick(120, 1500)
    check.rule = ("generated programs of all shapes plus programs with !oneof/!ordisabled/!soft-optional/!wait-optional tags nested in maps and lists; for each accepted "
                  "program the graph read through DAG() (nodes with kinds, typed outstanding dependencies) must equal the graph derived from the program by "
                  "vlib/dagref.py (lifecycle edges, one dependency per reference of the kind its tag requires, nothing else); and every single-point corruption "
                  "(cycles through input/wait_for/enabled/stop_if/deploy, also in workflows and sub-workflows of a single step, self reference, unknown step/stage/output/field/input field in step inputs and outputs, "
                  "ill-typed literals and expressions per field type, missing required input (plugin input, loop items), stop_if on a step without cancellation handler, unknown keys, wrong `step:`, no outputs) must be rejected by Prepare; "
                  "non-trivial = program with >=1 cross-step reference; distinct = (shape, graph size) and (corruption kind, shape)")
    check.assumptions = ["expected lifecycle edges are those of the two step providers as read from their sources (Appendix A)"]
    gs = programs(check, n)
    items, idx = [], 0
    for g in gs:
        case = {"id": "c10-%05d" % idx, "files": g["program"].files(), "scripts": {}, "runs": [], "dump_dag": True}
        idx += 1
        items.append((case, g, None))
        if g["shape"].startswith("tagged") or idx % 4 == 0:
            # the workflow object converted from the text is prepared a second time: the second graph is the one compared
            case = {"id": "c10-%05d" % idx, "files": g["program"].files(), "scripts": {}, "runs": [], "dump_dag": True, "prepare_twice": True}
            idx += 1
            items.append((case, dict(g, shape=g["shape"] + "+prepared-twice"), None))
    cor_n = 0
    for gi, g in enumerate(gs):
        if check.quick() and gi % 3:
            continue
        rng = random.Random(derive_seed(check.seed, "c10-cor", gi))
        for kind, p in corruptions(g, rng):
            case = {"id": "c10-%05d" % idx, "files": p.files(), "scripts": getattr(p, "scripts_needed", {}), "runs": []}
            idx += 1
            items.append((case, g, kind))
            cor_n += 1
    # references nested very deep (ten to fourteen maps and lists) in an output, a step input and wait_for: every one is a
    # dependency like any other
    def deep(node, depth, lists=False):
        for d in range(depth):
            node = [node] if (lists and d % 2) else {"k%d" % d: node}
        return node
    for depth in (9, 10, 14):
        for lists in (False, True):
            a = gen.plugin_step("a", Expr(In("tag")))
            b = gen.plugin_step("b", Expr(In("tag")), extra_input={"a": deep(gen.tagref("a"), depth, lists)})
            c = gen.plugin_step("c", Expr(In("tag")), wait_for=deep(Expr(Ref("b", "outputs", "success")), depth, lists))
            p = Program([a, b, c], {"success": {"deep": deep(gen.tagref("c"), depth, lists), "a": deep(Expr(In("tag")), depth, lists)}}, gen.BASE_INPUT)
            items.append(({"id": "c10-%05d" % idx, "files": p.files(), "scripts": {}, "runs": [], "dump_dag": True}, {"shape": "deep-nesting-%d%s" % (depth, "-lists" if lists else ""), "program": p}, None))
            idx += 1
    # workflows of a single step that refers to itself (cycles of length one), at the top level and as the sub-workflow of a loop
    from ..model import RawExpr
    for k, (field, node) in enumerate([("wait_for", Expr(RawExpr("$.steps.only.outputs"))), ("wait_for", Expr(Ref("only", "outputs", "success"))), ("wait_for", Expr(Ref("only", "starting", "started"))),
                                       ("enabled", Expr(Ref("only", "enabling", "resolved", "enabled"))), ("input.a", Expr(Ref("only", "outputs", "success"))), ("stop_if", Expr(Ref("only", "outputs", "success"))),
                                       ("deploy", {"deployer_name": "scripted", "tag": gen.tagref("only")})]):
        for nested in (False, True):
            only = gen.plugin_step("only", Expr(In("tag")), src="only")
            if field == "input.a":
                only.fields["input"]["a"] = node
            else:
                only.fields[field] = node
            if nested:
                sub = Program([only], {"success": {"t": gen.tagref("only")}}, gen.SUB_INPUT, name="sub.yaml")
                p = Program([Step("loop", "foreach", sub=sub, items=Expr(In("items")))], {"success": {"d": Expr(Ref("loop", "outputs", "success", "data"))}}, gen.BASE_INPUT)
            else:
                p = Program([only], {"success": {"t": gen.tagref("only")}}, gen.BASE_INPUT)
            case = {"id": "c10-%05d" % idx, "files": p.files(), "scripts": {}, "runs": []}
            idx += 1
            items.append((case, {"shape": "single-step" + ("-sub-workflow" if nested else ""), "program": p}, "one-step-cycle-through-" + field))
            cor_n += 1
    # dangling references under the optional tags in an output whose schema is given explicitly (nothing is inferred from the
    # expression there), and in a step input of type `any`
    STRS = {"type_id": "string"}
    def osch(props):
        return {"schema": {"root": "R", "objects": {"R": {"id": "R", "properties": {k: {"type": STRS, "required": False} for k in props}}}}}
    for kname, r in (("unknown-step", Ref("nosuchstep", "outputs", "success", "tag")), ("unknown-stage", Ref("a", "nosuchstage", "success", "tag")), ("unknown-output", Ref("a", "outputs", "nosuchoutput", "tag")),
                     ("unknown-field", Ref("a", "outputs", "success", "nosuchfield")), ("unknown-input-field", In("nosuchinput"))):
        for wait in (False, True):
            for where in ("explicit-output", "any-step-input"):
                a = gen.plugin_step("a", Expr(In("tag")))
                if where == "explicit-output":
                    p = Program([a], {"success": {"t": gen.tagref("a"), "o": Opt(r, wait)}}, gen.BASE_INPUT, output_schema={"success": osch(["t", "o"])})
                else:
                    b = gen.plugin_step("b", gen.tagref("a"), extra_input={"a": {"o": Opt(r, wait)}})
                    p = Program([a, b], {"success": {"t": gen.tagref("b")}}, gen.BASE_INPUT)
                case = {"id": "c10-%05d" % idx, "files": p.files(), "scripts": {}, "runs": []}
                idx += 1
                items.append((case, {"shape": where, "program": p}, "dangling-%s-under-%s-optional@%s" % (kname, "wait" if wait else "soft", where)))
                cor_n += 1
    # the valid twin of the explicit-output programs must be accepted
    a = gen.plugin_step("a", Expr(In("tag")))
    p = Program([a], {"success": {"t": gen.tagref("a"), "o": Opt(Ref("a", "outputs", "success", "tag"), False)}}, gen.BASE_INPUT, output_schema={"success": osch(["t", "o"])})
    items.append(({"id": "c10-%05d" % idx, "files": p.files(), "scripts": {}, "runs": [], "dump_dag": True}, {"shape": "explicit-output-with-optional-member", "program": p}, None))
    idx += 1
    # the same step registry used for a valid workflow tree and then for one whose sub-workflow file of the same name is
    # corrupted (and the other way round): each preparation must judge the files it is given
    seq_cases = []
    BAD_SUBS = {
        "dangling-step": lambda sub: sub.outputs.__setitem__("success", {"t": Expr(Ref("nosuchstep", "outputs", "success", "tag"))}),
        "dangling-output": lambda sub: sub.outputs.__setitem__("success", {"t": Expr(Ref("w0", "outputs", "nosuchoutput", "tag"))}),
        "illtyped-literal": lambda sub: sub.steps[0].fields["input"].__setitem__("n", "notanint"),
        "unknown-input-field": lambda sub: sub.steps[0].fields["input"].__setitem__("tag", Expr(In("nosuchfield"))),
        "self-reference": lambda sub: sub.steps[0].fields["input"].__setitem__("a", Expr(Ref("w0", "outputs", "success"))),
    }
    for j in range(check.pick(10, 60)):
        rng = random.Random(derive_seed(check.seed, "c10-seq", j))
        kind = sorted(BAD_SUBS)[j % len(BAD_SUBS)]

        def tree(bad):
            sub = gen.sub_program("sub.yaml", rng.choice([1, 2]))
            if bad:
                BAD_SUBS[kind](sub)
            return Program([Step("loop", "foreach", sub=sub, items=Expr(In("items")))], {"success": {"d": Expr(Ref("loop", "outputs", "success", "data"))}}, gen.BASE_INPUT)
        order = [False, True] if j % 3 else [True, False, True]
        seq = [{"files": tree(bad).files(), "input": {"tag": "T", "items": [{"tag": "i0"}]}} for bad in order]
        seq_cases.append(({"id": "c10-q%04d" % j, "mode": "seq", "files": {}, "scripts": {}, "runs": [], "extra": {"sequence": seq}, "no_events": True}, kind, order))
    with harness.Runner(instrument=False) as rn:
        out = rn.run_cases([c for c, _g, _k in items])
        seq_out = rn.run_cases([c for c, _k, _o in seq_cases])
    for case, kind, order in seq_cases:
        o = seq_out.get(case["id"], {})
        check.count()
        if "result" not in o:
            check.inconclusive_case(case["id"], str(o.get("death", {}).get("key")))
            continue
        runs = o["result"].get("runs") or []
        for pos, (bad, rr) in enumerate(zip(order, runs)):
            refused = rr.get("err_type") in ("parse", "prepare")
            if bad and not refused:
                check.report("accepted@after-valid-twin:" + kind, "sequence %s through one step registry: the tree at position %d has a corrupted sub-workflow (%s) and was accepted (%s)" % (
                    ["corrupted" if b else "valid" for b in order], pos, kind, rr.get("out_id") or rr.get("err")), {"case": case})
            elif not bad and refused:
                check.report("refused@after-corrupted-twin:" + kind, "sequence %s through one step registry: the valid tree at position %d was refused: %s" % (
                    ["corrupted" if b else "valid" for b in order], pos, (rr.get("err") or "")[:200]), {"case": case})
        check.nontrivial("seq|%s|%s" % (kind, order))
    by_id = {c["id"]: (c, g, k) for c, g, k in items}
    stats = {"accepted_programs": 0, "graphs_equal": 0, "corruptions": cor_n, "corruptions_rejected": 0, "rejection_kinds": {}}
    for cid in sorted(out):
        o = out[cid]
        case, g, kind = by_id[cid]
        check.count()
        if "death" in o:
            d = o["death"]
            if kind is None:
                check.inconclusive_case(cid, "%s %s" % (d["kind"], d["key"]))
            else:
                # a corrupted program that crashes preparation is C11's business; here it only was not "accepted"
                stats["corruptions_rejected"] += 1
                stats["rejection_kinds"].setdefault(kind, "died:" + d["key"])
            continue
        res = o["result"]
        err = res.get("parse_err") or res.get("prepare_err")
        if kind is None:
            if err:
                check.extra["rejected"] = check.extra.get("rejected", 0) + 1
                check.extra.setdefault("rejected_samples", []).append({"shape": g["shape"], "err": err[:200]})
                continue
            stats["accepted_programs"] += 1
            exp = dagref.expected_dag(g["program"])
            diffs = dagref.diff(exp, res["dag"])
            if diffs:
                check.report("dag@" + classify(diffs[0]), "case %s (%s): prepared graph differs from the implied graph: %s" % (cid, g["shape"], "; ".join(diffs[:5])),
                             {"case": case, "diffs": diffs[:40]})
            else:
                stats["graphs_equal"] += 1
            check.nontrivial("%s|%d|%d" % (g["shape"], len(exp.nodes), sum(len(v) for v in exp.deps.values())))
            if len(check.samples) < 2 and g["shape"] == "tagged":
                check.sample({"case": cid, "shape": g["shape"], "nodes": len(exp.nodes), "dependencies": sum(len(v) for v in exp.deps.values()),
                              "group_nodes": sorted(n for n, k in exp.nodes.items() if k == "dependencyGroup")})
        else:
            if err:
                stats["corruptions_rejected"] += 1
                stats["rejection_kinds"].setdefault(kind, err[:120])
                check.nontrivial("%s|%s" % (kind, g["shape"]))
            else:
                check.report("accepted@" + kind, "case %s: corrupted program (%s of a %s program) was accepted by Prepare" % (cid, kind, g["shape"]), {"case": case})
    check.extra.update(stats)
    check.sample({"corruption_kinds_and_first_rejection": dict(list(stats["rejection_kinds"].items())[:12])})
    if stats["accepted_programs"] < len(gs) * 0.8:
        check.fail_broken("only %d of %d generated programs were accepted: %s" % (stats["accepted_programs"], len(gs), check.extra.get("rejected_samples", [])[:3]))


def classify(d):
    return d.split(" ")[0] + "-" + d.split(" ")[1]
