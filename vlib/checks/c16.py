"""C16 - preparation is deterministic and insensitive to naming and ordering."""
import copy
import json
import random
import re

from .. import gen, harness
from ..core import Check, derive_seed
from ..model import Expr, In, Ref, Program, Step, OneOf, Opt, OrDisabled, Call, Bin, Not, RawExpr
from .c10 import programs


def permute_tree(t, rng):
    if isinstance(t, dict):
        ks = list(t.keys())
        rng.shuffle(ks)
        return {k: permute_tree(t[k], rng) for k in ks}
    if isinstance(t, list):
        return [permute_tree(v, rng) for v in t]
    if isinstance(t, OneOf):
        ks = list(t.options.keys())
        rng.shuffle(ks)
        return OneOf(t.discriminator, {k: permute_tree(t.options[k], rng) for k in ks})
    return t


def permuted(prog, rng):
    p = copy.deepcopy(prog)
    rng.shuffle(p.steps)
    for s in p.steps:
        ks = list(s.fields.keys())
        rng.shuffle(ks)
        s.fields = {k: permute_tree(s.fields[k], rng) for k in ks}
    ks = list(p.outputs.keys())
    rng.shuffle(ks)
    p.outputs = {k: permute_tree(p.outputs[k], rng) for k in ks}
    return p


def rename_node(n, m):
    if isinstance(n, Ref):
        return Ref(m.get(n.step, n.step), n.stage, n.output, *n.path)
    if isinstance(n, Call):
        return Call(n.fn, *[rename_node(a, m) for a in n.args])
    if isinstance(n, Bin):
        return Bin(n.op, rename_node(n.l, m), rename_node(n.r, m))
    if isinstance(n, Not):
        return Not(rename_node(n.e, m))
    return n


def rename_tree(t, m):
    if isinstance(t, Expr):
        return Expr(rename_node(t.node, m))
    if isinstance(t, Opt):
        return Opt(rename_node(t.node, m), t.wait)
    if isinstance(t, OrDisabled):
        return OrDisabled(rename_node(t.ref, m))
    if isinstance(t, OneOf):
        return OneOf(t.discriminator, {k: rename_tree(v, m) for k, v in t.options.items()})
    if isinstance(t, dict):
        return {k: rename_tree(v, m) for k, v in t.items()}
    if isinstance(t, list):
        return [rename_tree(v, m) for v in t]
    return t


def renamed(prog, m):
    p = copy.deepcopy(prog)
    for s in p.steps:
        s.fields = {k: rename_tree(v, m) for k, v in s.fields.items()}
        s.name = m.get(s.name, s.name)  # src (plugin identity) is kept: only the step's name changes
    p.outputs = {k: rename_tree(v, m) for k, v in p.outputs.items()}
    # references of the workflow input into the namespace of a step follow the step's new name
    for prop in getattr(p.input_schema, "props", {}).values():
        t = prop.get("type")
        if isinstance(t, tuple) and t[0] == "ref" and len(t) > 2 and t[2]:
            ns = t[2]
            for old_name, new_name in m.items():
                ns = ns.replace("$.steps.%s." % old_name, "$.steps.%s." % new_name)
            prop["type"] = ("ref", t[1], ns)
    return p


def unrename(canon, m):
    """Maps the new step names back inside a canonical form (step names occur as `steps.<name>.` and as object ids)."""
    inv = {v: k for k, v in m.items()}
    def sub(mo):
        return mo.group(1) + inv.get(mo.group(2), mo.group(2)) + mo.group(3)
    canon = re.sub(r'(steps\.)([A-Za-z0-9_@$-]+)(\.|")', sub, canon)
    return canon


def normalise(canon):
    """Order-insensitive view of a canonical form: parse JSON and re-dump with sorted keys and sorted string lists."""
    v = json.loads(canon)

    def norm(x):
        if isinstance(x, dict):
            return {k: norm(x[k]) for k in sorted(x)}
        if isinstance(x, list):
            y = [norm(e) for e in x]
            try:
                return sorted(y, key=lambda e: json.dumps(e, sort_keys=True))
            except TypeError:
                return y
        return x
    s = json.dumps(norm(v), sort_keys=True)
    # generated ids are numbered by first occurrence, which depends on key order: renumber after sorting
    seen = {}
    def ren(mo):
        return seen.setdefault(mo.group(0), "inferred#%d" % len(seen))
    return re.sub(r"inferred#\d+", ren, re.sub(r"inferred#(\d+)", lambda mo: "inferred#X", s))


def run(check):
    n = check.pick(40, 400)
    reps = check.pick(30, 60)
    check.rule = ("(engine) trees whose sub-workflow files form a diamond without a cycle parsed repeatedly through engine.Parse: one verdict; generated programs (all shapes, tags, inferred output objects): each text is parsed and prepared %d times in one process (Go randomises map "
                  "iteration per range loop), then once per variant: steps/outputs/map keys permuted, and steps consistently renamed; canonical form = DAG (nodes, "
                  "kinds, typed dependencies) + OutputSchema() self-serialised + Namespaces() keys and object ids, with generated ids renamed; all verdicts and "
                  "canonical forms must coincide (variants: modulo ordering and the renaming); non-trivial = >=2 steps and >=1 inferred object schema; "
                  "distinct = programs x variants") % reps
    check.assumptions = ["generated object ids (inferred_schema_<random>) are compared up to renaming; inferred ids are all mapped to one symbol when comparing variants"]
    gs = programs(check, n)
    # loops over a sub-workflow written in the deprecated single-`output` form (rewritten into `outputs` when it is prepared),
    # also two loops over the same file
    for k in range(check.pick(4, 20)):
        rng = random.Random(derive_seed(check.seed, "c16-legacy", k))
        sub = gen.sub_program("sub.yaml", rng.choice([1, 2]))
        sub.legacy_output = sub.outputs.pop("success")
        sub.outputs = {}
        steps = [Step("loop", "foreach", sub=sub, items=Expr(In("items")), parallelism=rng.choice([1, 2]))]
        outs = {"success": {"d": Expr(Ref("loop", "outputs", "success", "data"))}}
        if k % 2:
            steps.append(Step("loop2", "foreach", sub=sub, items=[{"tag": Expr(In("tag"))}]))
            outs["success"]["d2"] = Expr(Ref("loop2", "outputs", "success", "data"))
        gs.append({"program": Program(steps, outs, gen.BASE_INPUT), "shape": "foreach-legacy-output-sub"})
    # loops over a sub-workflow that declares several outputs of different shapes (only `success` is what the loop collects)
    for k in range(check.pick(4, 20)):
        rng = random.Random(derive_seed(check.seed, "c16-multi-out", k))
        sub = gen.sub_program("sub.yaml", rng.choice([1, 2]), with_error_output=rng.random() < 0.5, other_output=rng.choice(["stopped", "partial", "a_first"]))
        if rng.random() < 0.5:
            sub.outputs["zz_more"] = {"k": 3, "who": Expr(In("tag"))}
        steps = [Step("loop", "foreach", sub=sub, items=Expr(In("items")), parallelism=rng.choice([1, 2]))]
        outs = {"success": {"d": Expr(Ref("loop", "outputs", "success", "data"))}, "failed": {"e": Expr(Ref("loop", "failed", "error"))}}
        gs.append({"program": Program(steps, outs, gen.BASE_INPUT), "shape": "foreach-sub-with-several-outputs"})
    # two fields of one stage that both carry a tagged value at the same path, with different kinds of dependency
    from .c07 import C07_INPUT
    pairs = [("wait_for", "closure_wait_timeout"), ("closure_wait_timeout", "wait_for"), ("stop_if", "wait_for"), ("wait_for", "stop_if"), ("closure_wait_timeout", "stop_if"),
             ("items", "parallelism"), ("parallelism", "items"), ("enabled", "enabled")]
    for k, (f_wait, f_soft) in enumerate(pairs):
        g_ = gen.plugin_step("g", Expr(In("tag")), extra_input={"n": Expr(In("n")), "b": True, "a": [{"tag": "i0"}]})
        val = {"wait_for": Ref("g", "outputs", "success"), "closure_wait_timeout": Ref("g", "outputs", "success", "n"), "stop_if": Ref("g", "outputs", "success", "b"),
               "enabled": Ref("g", "outputs", "success", "b"), "items": Ref("g", "outputs", "success", "a"), "parallelism": Ref("g", "outputs", "success", "n")}
        if f_wait in ("items", "parallelism"):
            t = Step("loop", "foreach", sub=gen.sub_program("sub.yaml", 1), items=[{"tag": "i0"}])
            outs = {"success": {"d": Expr(Ref("loop", "outputs", "success", "data"))}}
        else:
            t = gen.plugin_step("b", Expr(In("tag")))
            outs = {"success": {"b": gen.tagref("b")}}
        t.fields[f_wait] = Opt(val[f_wait], True)
        if f_soft != f_wait:
            t.fields[f_soft] = Opt(val[f_soft], False)
        gs.append({"program": Program([g_, t], outs, C07_INPUT),
                   "shape": "two-tagged-fields-of-one-stage/%s+%s" % (f_wait, f_soft)})
    # texts in which the value of one key is spelled like a sibling key (in outputs, step inputs and the step itself): which of
    # the two comes first in the text must not matter
    for k in range(check.pick(6, 24)):
        rng = random.Random(derive_seed(check.seed, "c16-keylike", k))
        a = gen.plugin_step("a", "n", extra_input={"n": Expr(In("n")), "a": {"x": "y", "y": Expr(In("tag")), "z": "x"}})
        b = gen.plugin_step("b", gen.tagref("a"), extra_input={"a": {"first": "second", "second": gen.tagref("a"), "third": "first"}})
        outs = {"success": {"note": "result", "result": gen.tagref("b"), "other": "note", "b": "a", "a": gen.tagref("a")}}
        if k % 2:
            outs["success"] = dict(reversed(list(outs["success"].items())))
            a.fields["input"]["a"] = dict(reversed(list(a.fields["input"]["a"].items())))
        if k % 3 == 0:
            outs["other"] = {"success": "other", "v": "success", "w": Expr(Ref("a", "outputs", "error", "reason"))}
        steps = [a, b]
        rng.shuffle(steps)
        gs.append({"program": Program(steps, outs, gen.BASE_INPUT), "shape": "values-spelled-like-sibling-keys"})
    # loops over a sub-workflow whose input has several properties that refer to the same object of the same step namespace
    # (the parent re-exports one namespace per property)
    from ..model import InputSchema
    for k in range(check.pick(4, 16)):
        rng = random.Random(derive_seed(check.seed, "c16-nsrefs", k))
        names = ["first", "second", "third"][:2 + k % 2]
        props = {"tag": {"type": "string"}}
        for nm in names:
            props[nm] = {"type": ("ref", "WorkInput", "$.steps.w0.starting.inputs.input"), "required": False}
        sub = Program([gen.plugin_step("w0", Expr(In("tag")), src="sub_w0")], {"success": {"t": gen.tagref("w0")}}, InputSchema(props, root="Item"), name="sub.yaml")
        steps = [Step("loop", "foreach", sub=sub, items=Expr(In("items")), parallelism=rng.choice([1, 2]))]
        if k % 4 >= 2:
            steps.append(gen.plugin_step("after", Expr(In("tag")), wait_for=Expr(Ref("loop", "outputs", "success"))))
        gs.append({"program": Program(steps, {"success": {"d": Expr(Ref("loop", "outputs", "success", "data"))}}, gen.BASE_INPUT), "shape": "loop-over-sub-with-%d-references-into-one-namespace" % len(names)})
    items, idx = [], 0
    for gi, g in enumerate(gs):
        prog = g["program"]
        rng = random.Random(derive_seed(check.seed, "c16", gi))
        variants = [("same", prog, {})]
        variants.append(("permuted", permuted(prog, rng), {}))
        styles = ["zz_%s_%d", "Zz%sX%d", "STEP_%s_%d", "camelCase%s%d"]
        m = {s.name: styles[(gi + i) % len(styles)] % (s.name, i) for i, s in enumerate(prog.steps)}
        variants.append(("renamed", renamed(prog, m), m))
        if gi % 3 == 0:
            # names that are prefixes of one another (st, st_x, st_x_x, ...)
            m2 = {s.name: "st" + "_x" * i for i, s in enumerate(prog.steps)}
            variants.append(("renamed-prefixes", renamed(prog, m2), m2))
        # the same text prepared repeatedly through one step registry (as one engine instance does)
        variants.append(("same-registry", prog, {}))
        for vname, p, mm in variants:
            case = {"id": "c16-%05d" % idx, "mode": "prep_many", "files": p.files(), "scripts": {}, "runs": [], "extra": {"reps": reps if vname == "same" else 3}, "no_events": True}
            if vname == "same-registry":
                case["extra"] = {"reps": 5, "share_registry": True}
            idx += 1
            items.append((case, gi, vname, mm))
    # history: text A, then an unrelated text B (e.g. with a step that has no cancellation handler), then A again, all through one
    # step registry: both preparations of A must agree in verdict and form
    hist = []
    for k in range(check.pick(12, 80)):
        rng = random.Random(derive_seed(check.seed, "c16-hist", k))
        a1 = gen.plugin_step("a", Expr(In("tag")))
        a2 = gen.plugin_step("b", gen.tagref("a"), stop_if=Expr(Ref("a", "outputs", "error")))
        pa = Program([a1, a2], {"success": {"b": gen.tagref("b")}}, gen.BASE_INPUT)
        if k % 3 == 1:
            # A loops over sub.yaml; B is a tree whose sub.yaml (same name) is refused during its preparation
            def looptree(bad):
                sub = gen.sub_program("sub.yaml", 1)
                if bad == "dangling":
                    sub.outputs["success"] = {"t": Expr(Ref("nosuchstep", "outputs", "success", "tag"))}
                elif bad == "illtyped":
                    sub.steps[0].fields["input"]["n"] = "notanint"
                elif bad == "no-success":
                    sub.outputs = {"done": sub.outputs["success"]}
                return Program([Step("loop", "foreach", sub=sub, items=Expr(In("items")))], {"success": {"d": Expr(Ref("loop", "outputs", "success", "data"))}}, gen.BASE_INPUT)
            bad = ["dangling", "illtyped", "no-success"][(k // 3) % 3]
            pa, pb, scripts, what = looptree(None), looptree(bad), {}, "refused-sub-workflow-of-the-same-name:" + bad
            seq = [{"files": pa.files(), "input": None}, {"files": pb.files(), "input": None}, {"files": pa.files(), "input": None}]
            hist.append(({"id": "c16-h%04d" % k, "mode": "seq", "files": {}, "scripts": scripts, "runs": [], "extra": {"sequence": seq}, "no_events": True}, what))
            continue
        if k % 3 == 0:
            h = gen.plugin_step("h", Expr(In("tag")), schema="nocancel")
            pb = Program([h], {"success": {"h": gen.tagref("h")}}, gen.BASE_INPUT)
            scripts = {"h": {"schema": "nocancel"}}
            what = "step-without-cancel-handler"
        else:
            gb = gs[rng.randrange(len(gs))]
            pb, scripts, what = gb["program"], {}, gb["shape"]
        if k % 2:
            pa, pb = pb, pa  # also the other way round
        seq = [{"files": pa.files(), "input": None}, {"files": pb.files(), "input": None}, {"files": pa.files(), "input": None}]
        hist.append(({"id": "c16-h%04d" % k, "mode": "seq", "files": {}, "scripts": scripts, "runs": [], "extra": {"sequence": seq}, "no_events": True}, what))
    # trees of sub-workflow files that share files without any cycle (a diamond: the main workflow loops over a.yaml and b.yaml,
    # b.yaml loops over a.yaml too), parsed through the engine entry point many times: the verdict is always the same
    LOOP = '  %s: {kind: foreach, workflow: %s, items: [{tag: !expr "$.input.tag"}]}\n'
    def wf(root, loops, leaf=False):
        head = "version: v0.2.0\ninput: {root: %s, objects: {%s: {id: %s, properties: {tag: {type: {type_id: string}}}}}}\nsteps:\n" % (root, root, root)
        if leaf:
            return head + '  w: {plugin: {src: leaf_w, deployment_type: scripted}, input: {tag: !expr "$.input.tag"}}\noutputs:\n  success: {t: !expr "$.steps.w.outputs.success.tag"}\n'
        body = "".join(LOOP % ("l%d" % i, f) for i, f in enumerate(loops))
        return head + body + "outputs:\n  success: {" + ", ".join('d%d: !expr "$.steps.l%d.outputs.success.data"' % (i, i) for i in range(len(loops))) + "}\n"
    diamonds = {
        "diamond": {"workflow.yaml": wf("RootObject", ["a.yaml", "b.yaml"]), "a.yaml": wf("Item", [], leaf=True), "b.yaml": wf("Item", ["a.yaml"])},
        "diamond-deep": {"workflow.yaml": wf("RootObject", ["a.yaml", "b.yaml", "c.yaml"]), "a.yaml": wf("Item", ["leaf.yaml"]), "b.yaml": wf("Item", ["a.yaml", "leaf.yaml"]), "c.yaml": wf("Item", ["b.yaml", "a.yaml"]),
                         "leaf.yaml": wf("Item", [], leaf=True)},
        "cycle": {"workflow.yaml": wf("RootObject", ["a.yaml", "b.yaml"]), "a.yaml": wf("Item", ["b.yaml"]), "b.yaml": wf("Item", ["a.yaml"])},
    }
    # texts that must always be refused whatever order their properties are visited in: a default that is not a JSON document
    # next to properties without default, in the input section and in an explicit output schema
    BODY = 'steps:\n  w: {plugin: {src: leaf_w, deployment_type: scripted}, input: {tag: !expr "$.input.tag"}}\noutputs:\n  success: {t: !expr "$.steps.w.outputs.success.tag"}\n'
    PLAIN = ", ".join("p%d: {required: false, type: {type_id: string}}" % q for q in range(6))
    diamonds["bad-default-in-input"] = {"workflow.yaml": "version: v0.2.0\ninput: {root: RootObject, objects: {RootObject: {id: RootObject, properties: {tag: {type: {type_id: string}}, %s, n: {required: false, default: five, type: {type_id: integer}}}}}}\n%s" % (PLAIN, BODY)}
    diamonds["bad-default-in-output-schema"] = {"workflow.yaml": "version: v0.2.0\ninput: {root: RootObject, objects: {RootObject: {id: RootObject, properties: {tag: {type: {type_id: string}}}}}}\n%soutputSchema:\n  success:\n    schema: {root: R, objects: {R: {id: R, properties: {t: {type: {type_id: string}}, %s, n: {required: false, default: five, type: {type_id: integer}}}}}}\n" % (BODY, PLAIN)}
    # a required stage input left out while optional ones of the same stage are given: refused every time
    HEAD = "version: v0.2.0\ninput: {root: RootObject, objects: {RootObject: {id: RootObject, properties: {tag: {type: {type_id: string}}}}}}\nsteps:\n"
    diamonds["bad-missing-input-with-optional-siblings"] = {"workflow.yaml": HEAD + '  a: {plugin: {src: leaf_w, deployment_type: scripted}, input: {tag: !expr "$.input.tag"}}\n  w: {plugin: {src: leaf_w, deployment_type: scripted}, closure_wait_timeout: 5, wait_for: !expr "$.steps.a.outputs.success", stop_if: !expr "$.steps.a.outputs.error"}\noutputs:\n  success: {t: !expr "$.steps.w.outputs.success.tag"}\n'}
    diamonds["bad-missing-items-with-optional-siblings"] = {"workflow.yaml": HEAD + '  l: {kind: foreach, workflow: a.yaml, parallelism: 2, wait_for: !expr "$.input.tag"}\noutputs:\n  success: {d: !expr "$.steps.l.outputs.success.data"}\n', "a.yaml": wf("Item", [], leaf=True)}
    engine_cases = []
    for name, files in sorted(diamonds.items()):
        for rep in range(check.pick(16, 48)):
            engine_cases.append(({"id": "c16-e%s%03d" % (name[:3] + name[-2:], rep), "mode": "engine", "files": files, "scripts": {}, "runs": [], "extra": {"engine": {"cache": "context", "parse_only": True}}, "no_events": True}, name))
    with harness.Runner(instrument=False) as rn:
        out = rn.run_cases([c for c, _g, _v, _m in items], per_case_timeout=120)
        eout = rn.run_cases([c for c, _n in engine_cases], per_case_timeout=120)
        hout = rn.run_cases([c for c, _w in hist], per_case_timeout=120)
    verdicts = {}
    for case, name in engine_cases:
        o = eout.get(case["id"], {})
        check.count()
        if "result" not in o:
            check.inconclusive_case(case["id"], str(o.get("death", {}).get("key")))
            continue
        err = o["result"].get("parse_err") or o["result"].get("prepare_err")
        verdicts.setdefault(name, {}).setdefault("refused" if err else "accepted", []).append((case, (err or "")[:200]))
    for name, vs in sorted(verdicts.items()):
        want = "refused" if name == "cycle" or name.startswith("bad-") else "accepted"
        if len(vs) > 1 or want not in vs:
            other = [k for k in vs if k != want][0]
            check.report("verdict@engine-parse:%s" % name, "the tree %r parsed %d times through the engine entry point: %s (expected always %s); e.g. %s" % (
                name, sum(len(v) for v in vs.values()), {k: len(v) for k, v in vs.items()}, want, vs[other][0][1]), {"case": vs[other][0][0]})
        check.nontrivial("engine-parse|%s|%s" % (name, sorted(vs)))
    for case, what in hist:
        o = hout.get(case["id"], {})
        check.count()
        if "result" not in o:
            check.inconclusive_case(case["id"], str(o.get("death", {}).get("key")))
            continue
        runs = o["result"].get("runs") or []
        forms = (o["result"].get("extra") or {}).get("forms") or []
        if len(runs) < 3:
            check.inconclusive_case(case["id"], "sequence incomplete")
            continue
        v0 = runs[0].get("err_type") if runs[0].get("err_type") in ("parse", "prepare") else "accepted"
        v2 = runs[2].get("err_type") if runs[2].get("err_type") in ("parse", "prepare") else "accepted"
        if v0 != v2:
            check.report("verdict@depends-on-history", "text prepared, then another text (%s), then the first again through one step registry: verdicts %s and %s (%s)" % (
                what, v0, v2, (runs[2].get("err") or runs[0].get("err") or "")[:200]), {"case": case})
        elif v0 == "accepted" and len(forms) >= 3 and normalise(forms[0]) != normalise(forms[2]):
            check.report("form@depends-on-history", "text prepared, then another text (%s), then the first again through one step registry: the two prepared forms differ" % what, {"case": case})
        else:
            check.nontrivial("history|%s" % what)
    base = {}
    stats = {"preparations": 0, "programs": len(gs), "variants_compared": 0, "max_distinct_forms_per_text": 0}
    for case, gi, vname, mm in items:
        o = out.get(case["id"], {})
        check.count()
        if "result" not in o:
            check.inconclusive_case(case["id"], str(o.get("death", {}).get("key")))
            continue
        ex = o["result"].get("extra") or {}
        if o["result"].get("parse_err"):
            check.inconclusive_case(case["id"], o["result"]["parse_err"][:100])
            continue
        verd = ex.get("verdicts") or {}
        stats["preparations"] += sum(verd.values())
        stats["max_distinct_forms_per_text"] = max(stats["max_distinct_forms_per_text"], ex.get("distinct_forms", 0))
        if len(verd) > 1:
            check.report("verdict@nondeterministic", "program %d (%s, %s): repeated preparation gave different verdicts %s" % (gi, gs[gi]["shape"], vname, verd), {"case": case})
            continue
        if ex.get("distinct_forms", 0) > 1:
            check.report("form@nondeterministic", "program %d (%s, %s): %d distinct canonical forms over repeated preparations" % (gi, gs[gi]["shape"], vname, ex["distinct_forms"]),
                         {"case": case, "form_a": ex.get("canonical", "")[:3000], "form_b": ex.get("other_form", "")[:3000]})
            continue
        verdict = next(iter(verd), None)
        canon = ex.get("canonical") or ""
        if vname == "same":
            base[gi] = (verdict, canon)
            if verdict == "accepted" and len(gs[gi]["program"].steps) >= 2 and "inferred#" in canon:
                check.nontrivial("%d|same" % gi)
            if len(check.samples) < 2 and verdict == "accepted":
                check.sample({"program": gi, "shape": gs[gi]["shape"], "preparations": sum(verd.values()), "distinct_forms": ex.get("distinct_forms"), "canonical_prefix": canon[:300]})
            continue
        if gi not in base:
            continue
        bverdict, bcanon = base[gi]
        stats["variants_compared"] += 1
        if verdict != bverdict:
            check.report("verdict@" + vname, "program %d (%s): verdict %s for the %s variant, %s for the original" % (gi, gs[gi]["shape"], verdict, vname, bverdict), {"case": case})
            continue
        if verdict != "accepted":
            continue
        a = normalise(bcanon)
        b = normalise(unrename(canon, mm) if mm else canon)
        if a != b:
            check.report("form@" + vname, "program %d (%s): canonical form of the %s variant differs from the original" % (gi, gs[gi]["shape"], vname),
                         {"case": case, "original": a[:4000], "variant": b[:4000]})
        else:
            check.nontrivial("%d|%s" % (gi, vname))
    check.extra.update(stats)
