"""Workflow *programs*: the representation generators produce, the YAML renderer, and helpers.

A program is data, not text: steps with field trees made of literals, dicts, lists and expression
nodes. It is rendered to YAML and goes through the real FromYAML -> Prepare -> Execute; the same
program is interpreted independently by vlib.ref (reference semantics) and vlib.dagref (expected DAG).
"""
import json
import re


# ---------------------------------------------------------------- expression nodes
class Node:
    pass


class Lit(Node):
    def __init__(self, value):
        self.value = value

    def __repr__(self):
        return "Lit(%r)" % (self.value,)


class In(Node):
    """$.input<path>"""

    def __init__(self, *path):
        self.path = list(path)

    def __repr__(self):
        return "In(%s)" % ",".join(map(repr, self.path))


class Ref(Node):
    """$.steps.<step>.<stage>[.<output>[<path>]]"""

    def __init__(self, step, stage, output=None, *path):
        self.step, self.stage, self.output, self.path = step, stage, output, list(path)

    def __repr__(self):
        return "Ref(%s)" % ".".join([self.step, self.stage] + ([self.output] if self.output else []) + [str(p) for p in self.path])


class Call(Node):
    def __init__(self, fn, *args):
        self.fn, self.args = fn, list(args)

    def __repr__(self):
        return "Call(%s,%r)" % (self.fn, self.args)


class Bin(Node):
    def __init__(self, op, l, r):
        self.op, self.l, self.r = op, l, r

    def __repr__(self):
        return "Bin(%r %s %r)" % (self.l, self.op, self.r)


class RawExpr(Node):
    """Verbatim expression text; `refs` lists the In/Ref nodes it depends on (for the reference DAG)."""

    def __init__(self, text, refs=()):
        self.text, self.refs = text, list(refs)

    def __repr__(self):
        return "RawExpr(%r)" % self.text


class Not(Node):
    def __init__(self, e):
        self.e = e

    def __repr__(self):
        return "Not(%r)" % (self.e,)


# ---------------------------------------------------------------- tagged tree members
class Expr:
    """!expr <node>"""

    def __init__(self, node):
        self.node = node

    def __repr__(self):
        return "Expr(%r)" % (self.node,)


class OneOf:
    """!oneof {discriminator, one_of: {name: tree}}"""

    def __init__(self, discriminator, options):
        self.discriminator, self.options = discriminator, options

    def __repr__(self):
        return "OneOf(%r,%r)" % (self.discriminator, self.options)


class OrDisabled:
    """!ordisabled <ref>"""

    def __init__(self, ref):
        self.ref = ref

    def __repr__(self):
        return "OrDisabled(%r)" % (self.ref,)


class Opt:
    """!soft-optional / !wait-optional <node>"""

    def __init__(self, node, wait):
        self.node, self.wait = node, wait

    def __repr__(self):
        return "Opt(%r,wait=%r)" % (self.node, self.wait)


class RawYAML:
    """A pre-rendered YAML fragment (used by corruption generators)."""

    def __init__(self, text):
        self.text = text


IDENT = re.compile(r"^[A-Za-z_][A-Za-z0-9_]*$")


def path_str(path):
    s = ""
    for p in path:
        if isinstance(p, int):
            s += "[%d]" % p
        elif IDENT.match(p) and not re.match(r"^\d", p):
            s += "." + p
        else:
            s += "[%s]" % json.dumps(p)
    return s


def expr_str(n):
    if isinstance(n, Lit):
        v = n.value
        if isinstance(v, bool):
            return "true" if v else "false"
        if isinstance(v, int):
            return str(v) if v >= 0 else "(0 - %d)" % -v
        if isinstance(v, float):
            s = repr(v)
            if "." not in s and "e" not in s:
                s += ".0"
            return s
        return json.dumps(v)
    if isinstance(n, In):
        return "$.input" + path_str(n.path)
    if isinstance(n, Ref):
        s = "$.steps.%s.%s" % (n.step, n.stage)
        if n.output is not None:
            s += "." + n.output
        return s + path_str(n.path)
    if isinstance(n, Call):
        return "%s(%s)" % (n.fn, ", ".join(expr_str(a) for a in n.args))
    if isinstance(n, Bin):
        return "(%s %s %s)" % (expr_str(n.l), n.op, expr_str(n.r))
    if isinstance(n, Not):
        return "!(%s)" % expr_str(n.e)
    if isinstance(n, RawExpr):
        return n.text
    raise TypeError("not an expression node: %r" % (n,))


def yaml_flow(t):
    """Renders a tree as a YAML flow node (JSON plus tags)."""
    if isinstance(t, RawYAML):
        return t.text
    if isinstance(t, Expr):
        return "!expr " + json.dumps(expr_str(t.node))
    if isinstance(t, Opt):
        return ("!wait-optional " if t.wait else "!soft-optional ") + json.dumps(expr_str(t.node))
    if isinstance(t, OrDisabled):
        return "!ordisabled " + json.dumps(expr_str(t.ref))
    if isinstance(t, OneOf):
        opts = ", ".join("%s: %s" % (json.dumps(k), yaml_flow(v)) for k, v in t.options.items())
        return "!oneof {discriminator: %s, one_of: {%s}}" % (json.dumps(t.discriminator), opts)
    if isinstance(t, dict):
        return "{" + ", ".join("%s: %s" % (json.dumps(str(k)), yaml_flow(v)) for k, v in t.items()) + "}"
    if isinstance(t, (list, tuple)):
        return "[" + ", ".join(yaml_flow(v) for v in t) + "]"
    if isinstance(t, bool):
        return "true" if t else "false"
    if t is None:
        return "null"
    if isinstance(t, (int, float)):
        return json.dumps(t)
    return json.dumps(str(t))


# ---------------------------------------------------------------- steps and programs
PLUGIN_FIELDS = ("deploy", "enabled", "input", "wait_for", "closure_wait_timeout", "stop_if")
FOREACH_FIELDS = ("enabled", "items", "parallelism", "wait_for")


class Step:
    def __init__(self, name, kind="plugin", **kw):
        self.name = name
        self.kind = kind
        self.src = kw.pop("src", name)
        self.schema = kw.pop("schema", "work")  # scripted plugin schema variant
        self.step = kw.pop("step", None)  # `step:` run property
        self.sub = kw.pop("sub", None)  # Program (foreach)
        self.subfile = kw.pop("subfile", None)
        self.fields = {}
        for k, v in kw.items():
            self.fields[k] = v

    def field(self, k):
        return self.fields.get(k)


class Program:
    def __init__(self, steps=None, outputs=None, input_schema=None, output_schema=None, version="v0.2.0", name="workflow.yaml"):
        self.steps = steps or []  # list (order is rendering order)
        self.outputs = outputs or {}
        self.input_schema = input_schema or InputSchema({})
        self.output_schema = output_schema  # raw dict or None
        self.version = version
        self.name = name
        self.legacy_output = None

    def step(self, name):
        for s in self.steps:
            if s.name == name:
                return s
        raise KeyError(name)

    def files(self):
        out = {self.name: render(self)}
        for s in self.steps:
            if s.kind == "foreach" and s.sub is not None:
                sub_files = s.sub.files()
                if s.subfile and s.subfile != s.sub.name:
                    # the loop step spells the file name differently (./x.yaml, a/../x.yaml): the file is registered as written
                    sub_files[s.subfile] = sub_files.pop(s.sub.name)
                out.update(sub_files)
        return out

    def all_plugin_steps(self, prefix=""):
        for s in self.steps:
            if s.kind == "plugin":
                yield s
            elif s.sub is not None:
                yield from s.sub.all_plugin_steps()


class InputSchema:
    """Input scope: props maps name -> dict(type=..., required=bool, default=<python value or None>, ...).

    type is one of 'string','integer','float','bool', ('list', t), ('map', kt, vt), ('object', id, props), ('ref', id)
    """

    def __init__(self, props, root="RootObject", objects=None):
        self.props = props
        self.root = root
        self.objects = objects or {}  # id -> props

    def type_yaml(self, t):
        if isinstance(t, str):
            return {"type_id": t}
        if t[0] == "list":
            return {"type_id": "list", "items": self.type_yaml(t[1])}
        if t[0] == "map":
            return {"type_id": "map", "keys": self.type_yaml(t[1]), "values": self.type_yaml(t[2])}
        if t[0] == "ref":
            d = {"type_id": "ref", "id": t[1]}
            if len(t) > 2 and t[2]:
                d["namespace"] = t[2]
            return d
        if t[0] == "object":
            return {"type_id": "object", "id": t[1], "properties": self.props_yaml(t[2])}
        if t[0] == "integer":
            d = {"type_id": "integer"}
            d.update({k: v for k, v in t[1].items() if v is not None})
            return d
        if t[0] == "string":
            d = {"type_id": "string"}
            d.update({k: v for k, v in t[1].items() if v is not None})
            return d
        if t[0] == "pattern":
            return {"type_id": "pattern"}
        if t[0] == "enum":
            return {"type_id": "enum_string", "values": {v: {} for v in t[1]}}
        if t[0] == "raw":
            return t[1]
        raise ValueError(t)

    def props_yaml(self, props):
        out = {}
        for k, p in props.items():
            d = {"type": self.type_yaml(p["type"])}
            if not p.get("required", True):
                d["required"] = False
            if p.get("default") is not None:
                d["default"] = json.dumps(p["default"])
            out[k] = d
        return out

    def to_tree(self):
        objs = {self.root: {"id": self.root, "properties": self.props_yaml(self.props)}}
        for oid, props in self.objects.items():
            objs[oid] = {"id": oid, "properties": self.props_yaml(props)}
        return {"root": self.root, "objects": objs}


def step_tree(s):
    if s.kind == "plugin":
        d = {"plugin": {"src": s.src, "deployment_type": "scripted"}}
        if s.step is not None:
            d["step"] = s.step
    else:
        d = {"kind": "foreach", "workflow": s.subfile or (s.sub.name if s.sub else "sub.yaml")}
    for k, v in s.fields.items():
        if v is not None:
            d[k] = v
    return d


def render(p):
    lines = ["version: %s" % p.version]
    lines.append("input: " + yaml_flow(p.input_schema.to_tree() if isinstance(p.input_schema, InputSchema) else p.input_schema))
    lines.append("steps:")
    for s in p.steps:
        lines.append("  %s: %s" % (json.dumps(s.name), yaml_flow(step_tree(s))))
    if p.legacy_output is not None:
        lines.append("output: " + yaml_flow(p.legacy_output))
    if p.outputs and p.legacy_output is None:  # with the deprecated single `output:` the reference still reads p.outputs["success"]
        lines.append("outputs:")
        for k, v in p.outputs.items():
            lines.append("  %s: %s" % (json.dumps(k), yaml_flow(v)))
    if p.output_schema is not None:
        lines.append("outputSchema: " + yaml_flow(p.output_schema))
    return "\n".join(lines) + "\n"


def walk_tree(t, fn, path=()):
    """Calls fn(node, path) for every tagged member / expression in a tree."""
    if isinstance(t, (Expr, Opt, OrDisabled, OneOf)):
        fn(t, path)
        if isinstance(t, OneOf):
            for k, v in t.options.items():
                walk_tree(v, fn, path + ("?" + k,))
        return
    if isinstance(t, dict):
        for k, v in t.items():
            walk_tree(v, fn, path + (k,))
    elif isinstance(t, (list, tuple)):
        for i, v in enumerate(t):
            walk_tree(v, fn, path + (i,))


def node_refs(n, out=None):
    """All In/Ref leaves of an expression node."""
    if out is None:
        out = []
    if isinstance(n, (In, Ref)):
        out.append(n)
    elif isinstance(n, Call):
        for a in n.args:
            node_refs(a, out)
    elif isinstance(n, Bin):
        node_refs(n.l, out)
        node_refs(n.r, out)
    elif isinstance(n, Not):
        node_refs(n.e, out)
    elif isinstance(n, RawExpr):
        for r in n.refs:
            node_refs(r, out)
    return out
