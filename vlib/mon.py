"""Offline monitors over one case's result (API results + plugin-boundary event log)."""
from . import ref as R
from .model import Expr, Opt, OneOf, OrDisabled, Ref, In, walk_tree, node_refs


class V:
    """A violation."""

    def __init__(self, prop, key, what, **extra):
        self.prop, self.key, self.what, self.extra = prop, key, what, extra

    def __repr__(self):
        return "V(%s,%s,%s)" % (self.prop, self.key, self.what)

    def to_json(self):
        d = {"property": self.prop, "key": self.key, "what": self.what}
        d.update(self.extra)
        return d


def events_of(res, kind=None, src=None):
    for e in res.get("events") or []:
        if (kind is None or e["kind"] == kind) and (src is None or e["src"] == src):
            yield e


def expected_execs(sem, out=None):
    """src -> list of (step state) for every plugin execution the reference allows."""
    if out is None:
        out = {}
    for s in sem.p.steps:
        st = sem.state(s.name)
        if s.kind == "plugin":
            if st.executed:
                out.setdefault(s.src, []).append((s, st, sem))
        elif st.items:
            for sub in st.items:
                expected_execs(sub, out)
    return out


def required_refs(tree):
    """Ref nodes a field tree *requires* (outside optional tags; one-of options are not individually required)."""
    out = []

    def rec(t, req):
        if isinstance(t, Expr):
            if req:
                out.extend(n for n in node_refs(t.node) if isinstance(n, Ref))
        elif isinstance(t, Opt):
            pass
        elif isinstance(t, (OneOf, OrDisabled)):
            pass
        elif isinstance(t, dict):
            for v in t.values():
                rec(v, req)
        elif isinstance(t, (list, tuple)):
            for v in t:
                rec(v, req)

    rec(tree, True)
    return out


def production_seq(res, sem, ref):
    """Sequence number of the plugin-boundary event that must precede any use of `ref`; None if not observable."""
    try:
        s = sem.p.step(ref.step)
    except KeyError:
        return None
    if s.kind != "plugin":
        return None
    if ref.stage == "outputs":
        ends = [e for e in events_of(res, "exec-end", s.src)]
        return ends[0]["seq"] if ends else -1
    if ref.stage == "crashed":
        # a crash during start (hello / schema faults) has no plugin-side execution: not observable here
        ends = [e for e in events_of(res, "exec-end", s.src)]
        return ends[0]["seq"] if ends else None
    if ref.stage == "starting":
        # started is reported after the plugin was deployed and its input handed over: deploy-ok precedes it
        oks = [e for e in events_of(res, "deploy-ok", s.src) if (e.get("data") or {}).get("nth", {}) != 1]
        oks = [e for e in oks if _nth(e) >= 2]
        return oks[0]["seq"] if oks else -1
    if ref.stage in ("enabling", "disabled"):
        oks = [e for e in events_of(res, "deploy-ok", s.src) if _nth(e) >= 2]
        return oks[0]["seq"] if oks else -1
    if ref.stage == "deploy_failed":
        fails = [e for e in events_of(res, "deploy-fail", s.src)]
        return fails[0]["seq"] if fails else -1
    return None


def _nth(e):
    d = e.get("data") or {}
    n = d.get("nth")
    if isinstance(n, dict):
        n = n.get("v")
    return n or 0


def monitor_run(case, res, sem, run_index=0, single_run=True):
    """Monitors C01-C05/C08 local rules for a single-run case. Returns list of V."""
    vs = []
    prog = sem.p
    run = (res.get("runs") or [None])[run_index]
    if run is None:
        return [V("C01", "norun", "no run result recorded")]
    expect = sem.result()
    out_id, err = run.get("out_id") or "", run.get("err") or ""
    # ---- C01 result shape
    if bool(out_id) == bool(err):
        vs.append(V("C01", "shape@both-or-neither", "Execute returned id=%r err=%r" % (out_id, err)))
    if out_id and out_id not in prog.outputs:
        vs.append(V("C01", "shape@undeclared-output", "returned undeclared output id %r" % out_id))
    # ---- C08: bug: errors and output schema
    if "bug:" in err.lower():
        vs.append(V("C08", "bug@" + bug_class(err), "internal consistency error: %s" % err[:300]))
    if run.get("schema_check"):
        vs.append(V("C08", "schema@workflow-output", "returned output %r does not match OutputSchema(): %s" % (out_id, run["schema_check"][:300])))
    # ---- C03 result vs reference
    unknown = any(st_unknown(sem.state(s.name)) for s in prog.steps) or bool(expect["unmodelled"])
    if not unknown:
        if out_id:
            if out_id in expect["fault"]:
                vs.append(V("C03", "result@output-with-unevaluable-expression", "returned %r (%r) although its expression cannot be evaluated over the produced step outputs (%s)" % (out_id, run.get("data"), expect["fault"][out_id])))
            elif out_id in expect["avail"]:
                m = R.match(expect["avail"][out_id], R.denum(run.get("data")))
                if m:
                    vs.append(V("C03", "result@data", "output %r data differs from declarative meaning: %s" % (out_id, m)))
            elif expect["avail"]:
                vs.append(V("C03", "result@unproducible-output", "returned %r; producible per reference: %s" % (out_id, sorted(expect["avail"]))))
            elif not expect["pending"]:
                vs.append(V("C03", "result@output-but-none-producible", "returned %r (%r) although no output is producible" % (out_id, run.get("data"))))
        elif err and expect["avail"] and not expect["fault"]:
            vs.append(V("C03", "result@error-but-producible:" + run.get("err_type", ""), "run failed (%s) although outputs %s are producible" % (err[:200], sorted(expect["avail"]))))
    # ---- C04 / C02: executions
    exp = expected_execs(sem)
    seen = {}
    for e in events_of(res, "exec-start"):
        seen.setdefault(e["src"], []).append(e)
    for src, evs in seen.items():
        cands = list(exp.get(src, []))
        for e in evs:
            got = R.denum((e.get("data") or {}).get("input"))
            if not cands and src not in exp:
                vs.append(V("C04", "exec@not-runnable", "plugin %s executed although the reference says it must not run (%s)" % (src, why_not(sem, src))))
                continue
            hit = None
            errs = []
            for i, (s, st, sm) in enumerate(cands):
                m = R.match(st.exec_input, got)
                if m is None:
                    hit = i
                    break
                errs.append(m)
            if hit is None:
                if not exp.get(src):
                    continue
                vs.append(V("C02", "input@value", "plugin %s received input %r; expected %s (%s)" % (src, got, [c[1].exec_input for c in exp[src]][:3], errs[:2])))
                continue
            s, st, sm = cands.pop(hit)
            # ordering: every required reference was produced before
            if sm is sem:
                for f in ("input", "wait_for", "closure_wait_timeout", "enabled", "deploy"):
                    for r in required_refs(s.field(f)):
                        ps = production_seq(res, sem, r)
                        if ps is None:
                            continue
                        if ps < 0 or ps > e["seq"]:
                            vs.append(V("C02", "order@%s" % f, "plugin %s started (seq %d) before %r was produced (seq %s)" % (src, e["seq"], r, ps)))
    if single_run:
        # deploy-time data flow (C02): config seen by the deployer equals the evaluated deploy tree
        for s in prog.steps:
            if s.kind != "plugin" or s.field("deploy") is None:
                continue
            st = sem.state(s.name)
            for e in events_of(res, "deploy-call", s.src):
                if _nth(e) < 2:
                    continue
                if st.deploy_config is None:
                    vs.append(V("C04", "deploy@not-deployable", "plugin %s deployed although its deploy input is not producible" % s.src))
                    continue
                want = st.deploy_config.get("tag", "")
                got = (e.get("data") or {}).get("tag")
                m = R.match(want, got)
                if m:
                    vs.append(V("C02", "deploy@value", "deployer of %s saw tag %r, expected %r" % (s.src, got, want)))
                for r in required_refs(s.field("deploy")):
                    ps = production_seq(res, sem, r)
                    if ps is not None and (ps < 0 or ps > e["seq"]):
                        vs.append(V("C02", "order@deploy", "plugin %s deployed (seq %d) before %r was produced (seq %s)" % (s.src, e["seq"], r, ps)))
    # ---- C05 conservation
    vs.extend(monitor_leaks(res))
    return vs


def st_unknown(st):
    return any(v[0] == "unknown" for v in st.out.values()) or any(st_unknown_items(st))


def st_unknown_items(st):
    for sub in st.items or []:
        for s in sub.p.steps:
            yield st_unknown(sub.state(s.name))


def why_not(sem, src):
    for s in sem.p.steps:
        if s.kind == "plugin" and s.src == src:
            return sem.state(s.name).why
    return "no such step at top level"


def bug_class(err):
    e = err.lower()
    for k in ("schema evaluation resulted in invalid data", "output schema cannot unserialize", "failed to provide input", "no output named", "cannot obtain input node"):
        if k in e:
            return k.replace(" ", "-")
    return "other"


def monitor_leaks(res):
    vs = []
    if res.get("open_conns"):
        srcs = open_conn_srcs(res)
        vs.append(V("C05", "leak@conn", "%d plugin connection(s) still open after the run returned: %s" % (res["open_conns"], srcs)))
    if res.get("prepare_open_conns"):
        vs.append(V("C05", "leak@conn:prepare", "%d plugin connection(s) open after Prepare returned" % res["prepare_open_conns"]))
    # goroutines of the run that are still *blocked* inside engine code at the moment Execute returned (a goroutine that is
    # merely on its way out after signalling its wait-group is runnable, not blocked, and is ignored here)
    for g in res.get("census_at_return") or []:
        state = g.split(" @ ")[0]
        if state in ("select", "chan receive", "chan send", "sleep", "semacquire", "sync.Cond.Wait", "sync.Mutex.Lock", "sync.WaitGroup.Wait", "IO wait"):
            vs.append(V("C05", "alive-at-return@" + g.split(" @ ")[-1].split(" <- ")[0], "goroutine started for the run is still alive (%s) when Execute returned: %s" % (state, g)))
    for g in res.get("leak") or []:
        vs.append(V("C05", "leak@" + g.split(" @ ")[-1].split(" <- ")[0], "goroutine alive after the run returned and settled: %s" % g))
    for g in res.get("prepare_leak") or []:
        vs.append(V("C05", "leak@prepare:" + g.split(" @ ")[-1].split(" <- ")[0], "goroutine alive after Prepare returned: %s" % g))
    return vs


def open_conn_srcs(res):
    opened, closed = {}, set()
    for e in res.get("events") or []:
        if e["kind"] == "deploy-ok":
            opened[e["conn"]] = e["src"]
        elif e["kind"] == "conn-close":
            closed.add(e["conn"])
    return sorted(v for k, v in opened.items() if k not in closed)


def event_order_signature(res):
    """Order of plugin-boundary events, used to count distinct interleavings."""
    sig = []
    for e in res.get("events") or []:
        if e["kind"] in ("deploy-ok", "deploy-fail", "exec-start", "exec-end", "conn-close", "signal"):
            sig.append("%s:%s" % (e["kind"][:2] + e["kind"][-1], e["src"]))
    return ",".join(sig)


# ---------------------------------------------------------------- hang classification (known-finding keys)
def _impossible_refs(sem, tree):
    """Required Ref leaves of `tree` that the reference says are impossible."""
    out = []
    for r in required_refs(tree):
        try:
            sem.eval_node(r)
        except R.Unavail as u:
            if u.kind == R.IMPOSSIBLE:
                out.append(r)
        except (R.EvalFault, R.Unmodelled):
            pass
    return out


def _eagerly_noticed(sem, r):
    """True if the engine declares stage output `r` impossible as soon as that is decided: the step
    provider reports every stage that can no longer occur when the step ends (finished, crashed,
    disabled, deployment failed, closed), and impossibility of required inputs propagates through the
    dependency graph. Not noticed: the `crashed`, `closed` (and, before deployment, `deploy_failed`)
    stages of a step that never *starts* because one of its inputs became impossible - that step keeps
    waiting for input and only the fallback detector gives up on it."""
    try:
        st = sem.state(r.step)
    except KeyError:
        return True
    if st.stuck_at is not None and r.stage in ("crashed", "closed", "failed"):
        # (`failed` is the corresponding stage of a loop step that never gets to execute)
        return False
    if st.stuck_at == "deploy" and r.stage == "deploy_failed":
        return False
    return True


def late_stage_waits(sem):
    """wait-optional members (anywhere in the program) that refer to a stage the engine never gives up by itself: the
    crashed / closed / deploy_failed stage of a step that can never start (see _eagerly_noticed). The reference says such a
    member is absent; the engine keeps waiting for it until the fallback detector ends the run."""
    found = []

    def visit(node, _path):
        if isinstance(node, Opt) and node.wait:
            for r in node_refs(node.node):
                if not isinstance(r, Ref):
                    continue
                try:
                    sem.eval_node(Ref(r.step, r.stage, r.output))
                except R.Unavail as u:
                    if u.kind == R.IMPOSSIBLE and not _eagerly_noticed(sem, r):
                        found.append(r)
                except (R.EvalFault, R.Unmodelled):
                    pass
    for s in sem.p.steps:
        for f in s.fields.values():
            walk_tree(f, visit)
    for t in sem.p.outputs.values():
        walk_tree(t, visit)
    return found


def classify_hang(sem):
    """Key describing why an idle hang is (or is not) the already-known 'late stage' finding."""
    late = set()
    res = sem.result()
    for oid in res["impossible"]:
        refs = _impossible_refs(sem, sem.p.outputs[oid])
        if refs and not any(_eagerly_noticed(sem, r) for r in refs):
            late.update(r.stage for r in refs)
    never = [s.name for s in sem.p.steps if not sem.state(s.name).finishes]
    if res["avail"]:
        return "hang@output-producible"
    if res["pending"]:
        return "hang@output-pending-on-never-ending-step"
    if late and never:
        return "hang@never-ending-step+stage-of-never-started-step"
    if never:
        return "hang@never-ending-step"
    if late:
        return "hang@idle+stage-of-never-started-step"
    return "hang@idle"
