"""The run-mode family: generate -> Prepare -> Execute in a child with the scripted plugin -> event log -> monitors."""
import random

from . import gen, mon, ref
from .core import derive_seed


def build_case(cid, g, **opts):
    """g: dict(program, scripts, input). Returns (case dict for the runner, RefSem)."""
    prog = g["program"]
    inp = ref.normalise_input(prog.input_schema, g["input"])
    sem = ref.RefSem(prog, g["scripts"], inp)
    case = {"id": cid, "files": prog.files(), "scripts": g["scripts"], "runs": [{"input": g["input"]}]}
    case.update(opts)
    return case, sem


def terminating(sem):
    r = sem.result()
    return bool(r["avail"]) or not r["pending"]


def gen_terminating(seed, idx, attempts=30, **kw):
    """Generates a case whose run must end by itself (no output pending on a never-ending step)."""
    for a in range(attempts):
        rng = random.Random(derive_seed(seed, idx, a))
        g = gen.gen_case(rng, **kw)
        inp = ref.normalise_input(g["program"].input_schema, g["input"])
        sem = ref.RefSem(g["program"], g["scripts"], inp)
        if terminating(sem):
            return g
    return None


def death_property(death, case):
    """Which property a child death speaks about, and under which key."""
    kind = death["kind"]
    if kind == "deadlock":
        cancels = any(str(t.get("action", "")).startswith("cancel") for t in case.get("triggers") or [])
        return ("C06" if cancels else "C01"), death["key"]
    if kind == "panic":
        return "C07", death["key"]
    if kind == "fatal":
        if "concurrent map" in death.get("message", ""):
            return "C17", death["key"]
        return "C07", death["key"]
    if kind == "race":
        return "C17", death["key"]
    return None, death["key"]


def deadlock_key(death, sem):
    """Known-finding key of a deadlock: the blocked channel send if any, else the reference's classification."""
    sig = death["key"][len("deadlock@"):]
    sends = [p for p in sig.split("|") if p.startswith("chan-send@")]
    if sends:
        return "deadlock@" + "|".join(sends)
    return mon.classify_hang(sem)


def outcome_signature(g, res):
    run = (res.get("runs") or [{}])[0]
    return "%s|%s|%s|%s" % (g.get("shape"), sorted(g.get("outcome", {}).items()), run.get("out_id"), run.get("err_type"))


def run_and_monitor(check, runner, items, props, per_case_timeout=60.0, monitor=None, on_result=None, max_reject=0.1, claim_deaths=False):
    """items: list of (case, sem, g). Executes them, runs the monitors, reports violations of `props`.

    Deaths are attributed with death_property(); those that speak about another property make the
    case inconclusive for this check (counted). Returns dict id -> outcome."""
    by_id = {c["id"]: (c, sem, g) for c, sem, g in items}
    out = runner.run_cases([c for c, _s, _g in items], per_case_timeout=per_case_timeout)
    for cid in sorted(out):
        o = out[cid]
        case, sem, g = by_id[cid]
        check.count()
        if "death" in o:
            d = o["death"]
            prop, key = death_property(d, case)
            if d["kind"] == "deadlock":
                key = deadlock_key(d, sem)
            if prop in props:
                check.report(key, "%s in case %s: %s" % (d["kind"], cid, (d.get("message") or d["key"])[:300]),
                             {"case": case, "death": {k: d[k] for k in ("kind", "key", "exit_code") if k in d}, "detail": d.get("detail", "")[:4000]})
            elif claim_deaths and d["kind"] in ("panic", "fatal") and sem is not None and sem.result()["avail"]:
                # the process died in a run whose result the reference fixes: whatever else that says (it is C07's business),
                # the prescribed result was not returned
                check.report("result@process-died-but-producible:" + str(d["key"])[:100], "case %s (%s): the process died (%s) although outputs %s are producible" % (
                    cid, g.get("shape"), (d.get("message") or d["key"])[:200], sorted(sem.result()["avail"])), {"case": case, "death": {k: d[k] for k in ("kind", "key") if k in d}, "detail": d.get("detail", "")[:3000]})
            elif d["kind"] in ("timeout", "exit", "harness"):
                check.inconclusive_case(cid, "%s: %s" % (d["kind"], d.get("detail", "")[-300:]))
            else:
                check.inconclusive_case(cid, "died with %s (%s): belongs to %s" % (d["kind"], key, prop))
            continue
        res = o["result"]
        if res.get("parse_err") or res.get("prepare_err"):
            check.extra["rejected"] = check.extra.get("rejected", 0) + 1
            check.extra.setdefault("rejected_samples", [])
            if len(check.extra["rejected_samples"]) < 3:
                check.extra["rejected_samples"].append({"case": cid, "err": (res.get("parse_err") or res.get("prepare_err"))[:300]})
            continue
        vs = (monitor or mon.monitor_run)(case, res, sem)
        for v in vs:
            if v.prop in props:
                check.report(v.key, "case %s (%s): %s" % (cid, g.get("shape"), v.what), {"case": case, "violation": v.to_json(), "result": strip(res)})
        if on_result:
            on_result(cid, case, sem, g, res, vs)
    if items and check.extra.get("rejected", 0) > max_reject * len(items):
        check.fail_broken("%d of %d generated programs were rejected by Prepare (generator problem): %s" % (
            check.extra["rejected"], len(items), check.extra.get("rejected_samples")))
    return out


def strip(res, maxev=400):
    r = dict(res)
    ev = r.get("events") or []
    if len(ev) > maxev:
        r["events"] = ev[:maxev] + [{"truncated": len(ev) - maxev}]
    r.pop("hits", None)
    return r
