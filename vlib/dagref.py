"""Expected dependency graph of a workflow program (DESIGN.md Appendix A), derived from the program only."""
from .model import Expr, Opt, OneOf, OrDisabled, In, Ref, node_refs

PLUGIN_STAGES = {
    "deploy": [], "deploy_failed": ["error"], "enabling": ["resolved"], "starting": ["started"], "running": [], "cancelled": [],
    "disabled": ["output"], "outputs": None, "crashed": ["error"], "closed": ["result"],
}
PLUGIN_EDGES = [  # (from, to, kind)
    ("deploy", "starting", "and"), ("deploy", "deploy_failed", "completion-and"), ("deploy", "closed", "completion-and"),
    ("enabling", "starting", "and"), ("enabling", "disabled", "and"), ("enabling", "crashed", "completion-and"), ("enabling", "closed", "completion-and"),
    ("starting", "running", "and"), ("starting", "crashed", "completion-and"), ("starting", "closed", "completion-and"),
    ("running", "outputs", "and"), ("running", "crashed", "completion-and"), ("running", "closed", "completion-and"),
    ("cancelled", "outputs", "completion-and"), ("cancelled", "crashed", "completion-and"), ("cancelled", "deploy_failed", "completion-and"), ("cancelled", "closed", "completion-and"),
]
PLUGIN_FIELD_STAGE = {"deploy": "deploy", "enabled": "enabling", "input": "starting", "wait_for": "starting", "closure_wait_timeout": "starting", "stop_if": "cancelled"}
FOREACH_STAGES = {"execute": [], "outputs": ["success"], "failed": ["error"], "enabling": ["resolved"], "disabled": ["output"], "closed": ["result"]}
FOREACH_EDGES = [("execute", "outputs", "and"), ("execute", "failed", "completion-and"), ("enabling", "execute", "and"), ("enabling", "disabled", "and"), ("enabling", "closed", "completion-and")]
FOREACH_FIELD_STAGE = {"items": "execute", "parallelism": "execute", "wait_for": "execute", "enabled": "enabling"}
WORK_OUTPUTS = ["success", "error", "alt"]


class DAG:
    def __init__(self):
        self.nodes = {}
        self.deps = {}

    def node(self, nid, kind):
        self.nodes[nid] = kind
        self.deps.setdefault(nid, {})

    def dep(self, node, on, kind):
        self.deps.setdefault(node, {})
        self.deps[node].setdefault(on, kind)


def expected_dag(prog):
    d = DAG()
    d.node("input", "input")
    for s in prog.steps:
        stages, edges = (PLUGIN_STAGES, PLUGIN_EDGES) if s.kind == "plugin" else (FOREACH_STAGES, FOREACH_EDGES)
        for st, outs in stages.items():
            sid = "steps.%s.%s" % (s.name, st)
            d.node(sid, "stepStage")
            for o in (WORK_OUTPUTS if outs is None else outs):
                oid = sid + "." + o
                d.node(oid, "stepStageOutput")
                d.dep(oid, sid, "and")
        for a, b, k in edges:
            d.dep("steps.%s.%s" % (s.name, b), "steps.%s.%s" % (s.name, a), k)
        fmap = PLUGIN_FIELD_STAGE if s.kind == "plugin" else FOREACH_FIELD_STAGE
        for f, tree in s.fields.items():
            if tree is None or f not in fmap:
                continue
            add_tree(d, tree, "steps.%s.%s" % (s.name, fmap[f]), [])
    for oid, tree in prog.outputs.items():
        nid = "outputs." + oid
        d.node(nid, "output")
        add_tree(d, tree, nid, [])
    return d


def add_expr(d, node, consumer):
    for r in node_refs(node):
        if isinstance(r, In):
            d.dep(consumer, "input", "and")
        elif isinstance(r, Ref):
            if r.output is None:
                d.dep(consumer, "steps.%s.%s" % (r.step, r.stage), "and")
            else:
                d.dep(consumer, "steps.%s.%s.%s" % (r.step, r.stage, r.output), "and")


def add_tree(d, t, consumer, path):
    if isinstance(t, Expr):
        add_expr(d, t.node, consumer)
    elif isinstance(t, Opt):
        gid = consumer + "." + ".".join(str(p) for p in path)
        d.node(gid, "dependencyGroup")
        d.dep(consumer, gid, "completion-and" if t.wait else "optional")
        add_expr(d, t.node, gid)
    elif isinstance(t, OrDisabled):
        add_tree(d, OneOf("result", {"enabled": Expr(t.ref), "disabled": Expr(Ref(t.ref.step, "disabled", "output"))}), consumer, path)
    elif isinstance(t, OneOf):
        gid = consumer + "." + ".".join(str(p) for p in path)
        d.node(gid, "dependencyGroup")
        d.dep(consumer, gid, "and")
        for name, sub in t.options.items():
            oid = gid + "." + name
            d.node(oid, "dependencyGroup")
            d.dep(gid, oid, "or")
            add_tree(d, sub, oid, [])
    elif isinstance(t, dict):
        for k, v in t.items():
            add_tree(d, v, consumer, path + [k])
    elif isinstance(t, (list, tuple)):
        for i, v in enumerate(t):
            add_tree(d, v, consumer, path + [i])


def diff(expected, observed):
    """observed: the runner's dag dump {nodes, deps}. Returns list of differences."""
    out = []
    on, od = observed["nodes"], observed["deps"]
    for n, k in expected.nodes.items():
        if n not in on:
            out.append("missing node %s" % n)
        elif on[n] != k:
            out.append("node %s has kind %s, expected %s" % (n, on[n], k))
    for n in on:
        if n not in expected.nodes:
            out.append("unexpected node %s (%s)" % (n, on[n]))
    for n, deps in expected.deps.items():
        got = od.get(n, {})
        for dep, k in deps.items():
            if dep not in got:
                out.append("missing dependency %s -> %s (%s)" % (dep, n, k))
            elif got[dep] != k:
                out.append("dependency %s -> %s has kind %s, expected %s" % (dep, n, got[dep], k))
        for dep in got:
            if dep not in deps:
                out.append("unexpected dependency %s -> %s (%s)" % (dep, n, got[dep]))
    return out
