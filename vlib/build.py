"""Build the verification runner *into* the engine module from /repo's current working tree.

Nothing is written under /repo: the harness sources under /verif/harness are mapped to virtual
paths /repo/internal/verif/... through `go build -overlay`, the three concurrency-heavy engine
files are replaced by instrumented copies generated right now from the working tree, and a private
copy of go.mod/go.sum is used through -modfile (mandatory: see DESIGN.md section 2).
"""
import json
import os
import shutil
import subprocess
import tempfile

REPO = os.environ.get("VERIF_REPO", "/repo")
VERIF = os.path.dirname(os.path.dirname(os.path.abspath(__file__)))
MODULE = "go.flow.arcalot.io/engine"

INSTRUMENTED = [
    ("workflow/workflow.go", "wf"),
    ("internal/step/plugin/provider.go", "pl"),
    ("internal/step/foreach/provider.go", "fe"),
]

GOENV = {
    "GOFLAGS": "-mod=mod",
    "GOPROXY": "off",
    "GOSUMDB": "off",
    "GOTOOLCHAIN": "local",
    # A cgo binary (the root engine package pulls in net / os/user) disables the Go runtime's
    # "all goroutines are asleep - deadlock!" report, which is the hang oracle (DESIGN 4.3).
    "CGO_ENABLED": "0",
}


def goenv():
    env = dict(os.environ)
    env.update(GOENV)
    return env


def scratch(prefix="verif-"):
    base = os.environ.get("VERIF_TMP") or tempfile.gettempdir()
    return tempfile.mkdtemp(prefix=prefix, dir=base)


def repo_status():
    try:
        return subprocess.run(["git", "-C", REPO, "status", "--porcelain"], capture_output=True, text=True).stdout
    except Exception:
        return ""


class BuildError(Exception):
    pass


def run(cmd, cwd=None, env=None, timeout=1800):
    p = subprocess.run(cmd, cwd=cwd, env=env or goenv(), capture_output=True, text=True, timeout=timeout)
    if p.returncode != 0:
        raise BuildError("command failed: %s\n%s\n%s" % (" ".join(cmd), p.stdout[-4000:], p.stderr[-8000:]))
    return p


def harness_overlay(work, instrument=True, extra=None):
    """Returns (overlay path, modfile path, points list)."""
    repl = {}
    hroot = os.path.join(VERIF, "harness")
    for dirpath, _dirs, files in os.walk(hroot):
        for f in files:
            if not f.endswith(".go"):
                continue
            src = os.path.join(dirpath, f)
            rel = os.path.relpath(src, hroot)
            if rel.startswith("cmdline" + os.sep):
                # extra file of the real command line program (registers the scripted deployer)
                repl[os.path.join(REPO, "cmd/arcaflow", "zz_verif_" + os.path.basename(rel))] = src
                continue
            repl[os.path.join(REPO, "internal/verif", rel)] = src
    points = []
    if instrument:
        inst = os.path.join(work, "instrument")
        run(["go", "build", "-o", inst, "."], cwd=os.path.join(VERIF, "tools/instrument"))
        gen = os.path.join(work, "gen")
        os.makedirs(gen, exist_ok=True)
        ptsfile = os.path.join(work, "points.txt")
        for rel, tag in INSTRUMENTED:
            src = os.path.join(REPO, rel)
            if not os.path.exists(src):
                continue
            dst = os.path.join(gen, tag + "_" + os.path.basename(rel))
            run([inst, src, dst, tag, ptsfile])
            repl[src] = dst
        if os.path.exists(ptsfile):
            points = sorted(set(open(ptsfile).read().split()))
    if extra:
        repl.update(extra)
    ov = os.path.join(work, "overlay.json")
    with open(ov, "w") as fh:
        json.dump({"Replace": repl}, fh, indent=1)
    modfile = os.path.join(work, "go.mod")
    shutil.copy(os.path.join(REPO, "go.mod"), modfile)
    shutil.copy(os.path.join(REPO, "go.sum"), os.path.join(work, "go.sum"))
    with open(modfile, "a") as fh:
        fh.write("\nrequire github.com/anishathalye/porcupine v1.3.0\n")
    return ov, modfile, points


def build_runner(work, race=False, instrument=True, pkg="internal/verif/cmd/verifrun", out="verifrun", tags="verif"):
    """Builds the runner binary from the current working tree of /repo. Returns (binary, points)."""
    before = repo_status()
    ov, modfile, points = harness_overlay(work, instrument=instrument)
    binp = os.path.join(work, out + ("-race" if race else ""))
    cmd = ["go", "build", "-tags", tags, "-overlay", ov, "-modfile", modfile, "-o", binp]
    env = goenv()
    if race:
        cmd.append("-race")
        env["CGO_ENABLED"] = "1"  # the race detector needs cgo; race builds rely on the watchdog for hangs
    cmd.append(MODULE + "/" + pkg)
    run(cmd, cwd=REPO, env=env)
    after = repo_status()
    if before != after:
        raise BuildError("build changed /repo working tree:\nbefore:\n%s\nafter:\n%s" % (before, after))
    return binp, points


def cleanup(work):
    shutil.rmtree(work, ignore_errors=True)
