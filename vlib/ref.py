"""Reference semantics of a workflow program (DESIGN.md §5.2, Appendix B).

Independent of the engine and of the expressions library: interprets the *program* (vlib.model),
the outcome scripts and the input, and says which stage outputs must / cannot / never get produced,
what every executed step must receive, and which workflow results are allowed.

Schedule-dependent freedom is expressed with pattern nodes (Maybe, Choice, ANYSTR) that
`match(pattern, actual)` understands.
"""
from .model import (RawExpr, Lit, In, Ref, Call, Bin, Not, Expr, OneOf, OrDisabled, Opt, Program, Step, node_refs, walk_tree)

AVAIL, IMPOSSIBLE, PENDING = "avail", "impossible", "pending"


class Unavail(Exception):
    def __init__(self, kind, why=""):
        Exception.__init__(self, "%s: %s" % (kind, why))
        self.kind = kind
        self.why = why


class EvalFault(Exception):
    """The expression cannot be evaluated although its dependencies exist (run-time evaluation failure)."""


class Unmodelled(Exception):
    """The reference does not interpret this construct: no verdict about values that depend on it."""


class _Any:
    def __init__(self, name):
        self.name = name

    def __repr__(self):
        return self.name


ANYSTR = _Any("<any string>")
ANYVAL = _Any("<any value>")
ABSENT = _Any("<absent>")


class Maybe:
    """A map entry that may be present with this value, or absent."""

    def __init__(self, value):
        self.value = value

    def __repr__(self):
        return "Maybe(%r)" % (self.value,)


class Choice:
    def __init__(self, alts):
        self.alts = alts

    def __repr__(self):
        return "Choice(%r)" % (self.alts,)


def denum(v):
    """Strips the runner's Go-type annotations from a value for value comparison."""
    if isinstance(v, dict):
        if "!int" in v and "v" in v:
            return v["v"]
        if "!float32" in v:
            return v["!float32"]
        if "!string" in v or "!bool" in v:
            return v["v"]
        if "!map" in v:
            return {denum_key(k): denum(x) for k, x in v["!map"]}
        return {k: denum(x) for k, x in v.items()}
    if isinstance(v, list):
        return [denum(x) for x in v]
    return v


def denum_key(k):
    k = denum(k)
    return k


def match(pat, act, path="$"):
    """Returns None if `act` matches pattern `pat`, else a string describing the first difference."""
    if pat is ANYVAL:
        return None
    if pat is ANYSTR:
        return None if isinstance(act, str) else "%s: expected a string, got %r" % (path, act)
    if isinstance(pat, Choice):
        errs = []
        for a in pat.alts:
            e = match(a, act, path)
            if e is None:
                return None
            errs.append(e)
        return "%s: no alternative matches (%s)" % (path, "; ".join(errs[:3]))
    if isinstance(pat, Maybe):
        return match(pat.value, act, path)
    if isinstance(pat, dict):
        if not isinstance(act, dict):
            return "%s: expected map %r, got %r" % (path, pat, act)
        for k, pv in pat.items():
            if pv is ABSENT:
                if k in act:
                    return "%s.%s: expected absent, got %r" % (path, k, act[k])
                continue
            if k not in act:
                if isinstance(pv, Maybe):
                    continue
                return "%s.%s: missing (expected %r)" % (path, k, pv)
            e = match(pv, act[k], "%s.%s" % (path, k))
            if e:
                return e
        for k in act:
            if k not in pat:
                return "%s.%s: unexpected key (value %r)" % (path, k, act[k])
        return None
    if isinstance(pat, (list, tuple)):
        if not isinstance(act, list) or len(act) != len(pat):
            return "%s: expected list %r, got %r" % (path, pat, act)
        for i, (pv, av) in enumerate(zip(pat, act)):
            e = match(pv, av, "%s[%d]" % (path, i))
            if e:
                return e
        return None
    if isinstance(pat, bool) or isinstance(act, bool):
        return None if (isinstance(pat, bool) and isinstance(act, bool) and pat == act) else "%s: expected %r, got %r" % (path, pat, act)
    if isinstance(pat, float) or isinstance(act, float):
        try:
            ok = float(pat) == float(act) and isinstance(act, (int, float)) and isinstance(pat, (int, float))
        except (TypeError, ValueError):
            ok = False
        return None if ok else "%s: expected %r, got %r" % (path, pat, act)
    return None if pat == act else "%s: expected %r, got %r" % (path, pat, act)


def wild(v):
    return v is ANYSTR or v is ANYVAL or isinstance(v, (Maybe, Choice))


def yaml_scalar(v):
    """Literal scalars of a workflow file reach the engine as strings (its YAML reader knows no other scalar type)."""
    if isinstance(v, bool):
        return "true" if v else "false"
    if isinstance(v, (int, float)):
        return repr(v) if isinstance(v, float) else str(v)
    return v


def _conv(v, typ):
    """What a schema-driven plugin makes of a received scalar (string forms are converted)."""
    if wild(v) or v is ABSENT:
        return v
    try:
        if typ == "string":
            return v if isinstance(v, str) else (("true" if v else "false") if isinstance(v, bool) else str(v))
        if typ == "int":
            return int(v) if not isinstance(v, bool) else v
        if typ == "float":
            return float(v) if not isinstance(v, bool) else v
        if typ == "bool":
            if isinstance(v, str):
                return v.lower() in ("true", "yes", "y", "on", "1", "enable", "enabled")
            return bool(v) if isinstance(v, int) else v
    except (TypeError, ValueError):
        return v
    return v


def norm_work_input(inp):
    """Normalisation of the scripted `work` step's input by its own schema (mirrors harness/splugin)."""
    if not isinstance(inp, dict):
        return inp
    out = {}
    for k, v in inp.items():
        if isinstance(v, Maybe):
            out[k] = Maybe(norm_work_input({k: v.value}).get(k))
            continue
        if k == "tag":
            out[k] = _conv(v, "string")
        elif k == "n":
            out[k] = _conv(v, "int")
        elif k == "f":
            out[k] = _conv(v, "float")
        elif k == "b":
            out[k] = _conv(v, "bool")
        elif k == "l" and isinstance(v, list):
            out[k] = [_conv(x, "string") for x in v]
        elif k == "o" and isinstance(v, dict):
            o = dict(v)
            if "s" in o:
                o["s"] = _conv(o["s"], "string")
            if "i" in o:
                o["i"] = _conv(o["i"], "int")
            out[k] = o
        else:
            out[k] = v
    return out


def success_data(src, inp):
    """Pattern of the scripted step's success output for an input *pattern* (echoed fields keep their freedom)."""
    tag = inp.get("tag")
    out = {"tag": ANYSTR if wild(tag) else "%s(%s)" % (src, tag)}
    n = inp.get("n")
    if isinstance(n, int) and not isinstance(n, bool):
        out["n"] = n + 1
    elif wild(n):
        out["n"] = ANYVAL
    for k in ("f", "b", "l", "o", "a"):
        if k in inp and inp[k] is not None and inp[k] is not ABSENT:
            out[k] = inp[k]
    return out


class StepState:
    def __init__(self, name):
        self.name = name
        self.out = {}  # (stage, output) -> (status, value)
        self.executed = False  # plugin code runs
        self.exec_input = None  # pattern of the input the plugin must receive
        self.deployed = None  # None unknown/never, True, False
        self.deploy_config = None
        self.finishes = True  # False if the step never ends by itself
        self.why = ""
        self.items = None  # foreach: list of per-item RefSem
        self.cancelled_while_running = False
        self.stuck_at = None  # stage whose input can never be provided (the step then waits until the run ends)

    def set_all(self, keys, status):
        for k in keys:
            if k not in self.out:
                self.out[k] = (status, None)


PLUGIN_OUTS = [("deploy_failed", "error"), ("enabling", "resolved"), ("disabled", "output"), ("starting", "started"),
               ("outputs", "success"), ("outputs", "error"), ("outputs", "alt"), ("crashed", "error"), ("closed", "result")]
FOREACH_OUTS = [("enabling", "resolved"), ("disabled", "output"), ("outputs", "success"), ("failed", "error"), ("closed", "result")]


class RefSem:
    def __init__(self, program, scripts, input_value, functions=None):
        self.p = program
        self.scripts = scripts or {}
        self.input = input_value
        self.states = {}
        self.busy = set()
        self.step_faults = {}  # step -> why a stage input of it cannot be evaluated although everything it refers to exists

    # ------------------------------------------------------------ expression evaluation
    def eval_node(self, n):
        if isinstance(n, Lit):
            return n.value
        if isinstance(n, In):
            v = self.input
            for comp in n.path:
                try:
                    v = v[comp]
                except (KeyError, IndexError, TypeError):
                    raise EvalFault("input path %r not present" % (n.path,))
            return v
        if isinstance(n, Ref):
            st = self.state(n.step)
            if n.output is None:
                # whole stage: {<id>: data} of whichever output finished
                got = [(k, v) for k, v in st.out.items() if k[0] == n.stage]
                av = [(k, v) for k, v in got if v[0] == AVAIL]
                if av:
                    (stage, oid), (_s, val) = av[0]
                    return {oid: val}
                if any(v[0] == PENDING for _k, v in got):
                    raise Unavail(PENDING, "stage %s.%s" % (n.step, n.stage))
                raise Unavail(IMPOSSIBLE, "stage %s.%s" % (n.step, n.stage))
            status, val = st.out.get((n.stage, n.output), (IMPOSSIBLE, None))
            if status != AVAIL:
                raise Unavail(status, "%s.%s.%s (%s)" % (n.step, n.stage, n.output, st.why))
            v = val
            for comp in n.path:
                if v is ANYSTR or v is ANYVAL:
                    return ANYVAL
                try:
                    v = v[comp]
                except (KeyError, IndexError, TypeError):
                    raise EvalFault("path %r not present in %s.%s.%s" % (n.path, n.step, n.stage, n.output))
            return v
        if isinstance(n, Not):
            return not self.eval_node(n.e)
        if isinstance(n, Bin):
            l = self.eval_node(n.l)
            if n.op == "&&":
                return bool(l) and bool(self.eval_node(n.r))
            if n.op == "||":
                return bool(l) or bool(self.eval_node(n.r))
            r = self.eval_node(n.r)
            if n.op == "==":
                return l == r
            if n.op == "!=":
                return l != r
            if n.op in ("+", "-", "*"):
                v = l + r if n.op == "+" else (l - r if n.op == "-" else l * r)
                if isinstance(v, int) and not isinstance(v, bool) and not -2 ** 63 <= v < 2 ** 63:
                    raise Unmodelled("integer result outside the 64-bit range")
                return v
            if n.op == "/":
                if r == 0:
                    raise EvalFault("division by zero")
                if isinstance(l, int) and isinstance(r, int):
                    q = abs(l) // abs(r)
                    return q if (l >= 0) == (r >= 0) else -q
                return l / r
            if n.op == ">":
                return l > r
            if n.op == "<":
                return l < r
            if n.op == ">=":
                return l >= r
            if n.op == "<=":
                return l <= r
            raise Unmodelled("operator %s" % n.op)
        if isinstance(n, Call):
            args = [self.eval_node(a) for a in n.args]
            if n.fn == "intToString":
                return str(args[0])
            if n.fn == "toUpper":
                return args[0].upper()
            if n.fn == "toLower":
                return args[0].lower()
            if n.fn == "boolToString":
                return "true" if args[0] else "false"
            if n.fn == "stringToInt":
                try:
                    return int(args[0])
                except ValueError:
                    raise EvalFault("stringToInt(%r)" % args[0])
            if n.fn == "intToFloat":
                return float(args[0])
            if n.fn == "bindConstants":
                return [{"item": it, "constant": args[1]} for it in args[0]]
            raise Unmodelled("function %s" % n.fn)
        if isinstance(n, RawExpr):
            raise Unmodelled("verbatim expression %s" % n.text)
        raise TypeError(n)

    def eval_tree(self, t):
        """Value pattern of a field tree; raises Unavail when a required dependency is not produced."""
        if isinstance(t, Expr):
            return self.eval_node(t.node)
        if isinstance(t, Opt):
            try:
                v = self.eval_node(t.node)
            except Unavail as u:
                if t.wait and u.kind == PENDING:
                    raise
                return ABSENT
            except EvalFault as e:
                if not t.wait:
                    # evaluated only if its dependency happens to be resolved at that moment: no verdict
                    raise Unmodelled("soft-optional value that cannot be evaluated (%s)" % e)
                raise
            return v if t.wait else Maybe(v)
        if isinstance(t, OrDisabled):
            r = t.ref
            return self.eval_tree(OneOf("result", {"enabled": Expr(r), "disabled": Expr(Ref(r.step, "disabled", "output"))}))
        if isinstance(t, OneOf):
            alts, pend = [], False
            for name, sub in t.options.items():
                try:
                    v = self.eval_tree(sub)
                except Unavail as u:
                    pend = pend or u.kind == PENDING
                    continue
                if isinstance(v, dict):
                    v = dict(v)
                    v[t.discriminator] = name
                alts.append(v)
            if alts:
                return alts[0] if len(alts) == 1 else Choice(alts)
            raise Unavail(PENDING if pend else IMPOSSIBLE, "oneof")
        if isinstance(t, dict):
            out = {}
            for k, v in t.items():
                r = self.eval_tree(v)
                if r is None:
                    continue
                out[k] = r
            return out
        if isinstance(t, (list, tuple)):
            return [self.eval_tree(v) for v in t]
        return yaml_scalar(t)

    def avail(self, t):
        try:
            return AVAIL, self.eval_tree_strict(t)
        except Unavail as u:
            return u.kind, None

    def eval_tree_strict(self, t):
        """eval_tree, but an evaluation fault only stands if everything the tree requires was produced
        (the engine evaluates a node only once all its dependencies are resolved)."""
        try:
            return self.eval_tree(t)
        except EvalFault:
            worst = []

            def visit(m, _path):
                if isinstance(m, Expr):
                    for r in node_refs(m.node):
                        if isinstance(r, Ref):
                            try:
                                self.eval_node(Ref(r.step, r.stage, r.output))
                            except Unavail as u:
                                worst.append(u)
                            except EvalFault:
                                pass
            walk_tree(t, visit)
            for u in worst:
                if u.kind == IMPOSSIBLE:
                    raise u
            if worst:
                raise worst[0]
            raise

    # ------------------------------------------------------------ steps
    def state(self, name):
        if name in self.states:
            return self.states[name]
        if name in self.busy:
            raise RuntimeError("cyclic program at step " + name)
        self.busy.add(name)
        s = self.p.step(name)
        try:
            st = self._plugin(s) if s.kind == "plugin" else self._foreach(s)
        except EvalFault as e:
            # a stage input of this step cannot be evaluated: the engine ends the whole run with an error
            self.step_faults[name] = str(e)
            st = StepState(name)
            st.why = "stage input cannot be evaluated: %s" % e
            st.set_all(PLUGIN_OUTS if s.kind == "plugin" else FOREACH_OUTS, IMPOSSIBLE)
        except Unmodelled as e:
            st = StepState(name)
            st.why = "not interpreted by the reference: %s" % e
            st.set_all(PLUGIN_OUTS if s.kind == "plugin" else FOREACH_OUTS, "unknown")
        self.busy.discard(name)
        self.states[name] = st
        return st

    def script(self, src):
        return self.scripts.get(src) or {}

    def _plugin(self, s):
        st = StepState(s.name)
        sc = self.script(s.src)

        def stuck(status, why, after_enable=False):
            st.why = why
            st.finishes = status != PENDING
            if status == IMPOSSIBLE:
                st.stuck_at = why.split(" ")[0]
            st.set_all(PLUGIN_OUTS, status)
            if status == IMPOSSIBLE:
                # the step is closed when the run ends; never observable by a deciding output
                st.out[("closed", "result")] = (PENDING, None)
            return st

        # 1. deploy
        status, cfg = self.avail({"deploy": s.field("deploy")} if s.field("deploy") is not None else {})
        if status != AVAIL:
            return stuck(status, "deploy input " + status)
        st.deploy_config = cfg.get("deploy")
        deploys = sc.get("deploys") or []
        rt = deploys[min(1, len(deploys) - 1)] if deploys else {}
        cfg_fail = isinstance(st.deploy_config, dict) and st.deploy_config.get("fail") in (True, "true")
        if rt.get("fail") or cfg_fail:
            st.deployed = False
            st.out[("deploy_failed", "error")] = (AVAIL, {"error": ANYSTR})
            st.set_all(PLUGIN_OUTS, IMPOSSIBLE)
            st.why = "deploy failed"
            return st
        if rt.get("block_ctx"):
            return stuck(PENDING, "deployment never completes")
        st.deployed = True
        st.out[("deploy_failed", "error")] = (IMPOSSIBLE, None)
        # 2. enabling
        if getattr(s, "stop_mode", None) == "enabling" and s.field("stop_if") is not None:
            # construction in which the stop condition fires while the step still waits for its `enabled` value: the step is
            # closed; it was neither enabled nor disabled
            sstatus, sv = self.avail({"stop_if": s.field("stop_if")})
            if sstatus == AVAIL and sv.get("stop_if") not in (False, None, ABSENT, "false"):
                st.out[("closed", "result")] = (AVAIL, {"cancelled": True, "close_requested": False})
                st.out[("enabling", "resolved")] = (IMPOSSIBLE, None)
                st.out[("disabled", "output")] = (IMPOSSIBLE, None)
                st.set_all(PLUGIN_OUTS, IMPOSSIBLE)
                st.why = "stopped before start"
                return st
        status, en = self.avail({"enabled": s.field("enabled")} if s.field("enabled") is not None else {})
        if status != AVAIL:
            return stuck(status, "enabled input " + status)
        enabled = en.get("enabled", True)
        if isinstance(enabled, (str, int)) and not isinstance(enabled, bool):
            # constants reach the providers as text; the stage declares a bool, which has these spellings
            low = str(enabled).lower()
            if low in ("true", "yes", "y", "on", "1", "enable", "enabled"):
                enabled = True
            elif low in ("false", "no", "n", "off", "0", "disable", "disabled"):
                enabled = False
        if enabled is False:
            st.out[("enabling", "resolved")] = (AVAIL, {"enabled": False})
            st.out[("disabled", "output")] = (AVAIL, {"message": ANYSTR})
            st.set_all(PLUGIN_OUTS, IMPOSSIBLE)
            st.why = "disabled"
            return st
        st.out[("enabling", "resolved")] = (AVAIL, {"enabled": True})
        st.out[("disabled", "output")] = (IMPOSSIBLE, None)
        # stop condition (only deterministic constructions are interpreted, see DESIGN C04)
        stopped_while = False
        if s.field("stop_if") is not None:
            sstatus, sv = self.avail({"stop_if": s.field("stop_if")})
            fires = sstatus == AVAIL and sv.get("stop_if") not in (False, None, ABSENT, "false")
            mode = getattr(s, "stop_mode", None)
            if fires and mode == "before":
                st.out[("closed", "result")] = (AVAIL, {"cancelled": True, "close_requested": False})
                st.set_all(PLUGIN_OUTS, IMPOSSIBLE)
                st.why = "stopped before start"
                return st
            if fires and mode == "while":
                stopped_while = True
            elif fires or sstatus == PENDING:
                st.why = "stop condition with schedule-dependent timing"
                for k in PLUGIN_OUTS:
                    if k not in st.out:
                        st.out[k] = ("unknown", None)
                return st
        # 3. starting
        tree = {}
        for f in ("input", "wait_for", "closure_wait_timeout"):
            if s.field(f) is not None:
                tree[f] = s.field(f)
        status, sv = self.avail(tree)
        if status != AVAIL:
            return stuck(status, "starting input " + status)
        # hello / schema faults at the run-time deployment end the step in `crashed`
        if rt.get("hello") in ("eof", "garbage", "badversion", "badschema") or rt.get("schema") in ("mismatch", "renamed"):
            st.out[("crashed", "error")] = (AVAIL, {"output": ANYSTR})
            st.set_all(PLUGIN_OUTS, IMPOSSIBLE)
            st.why = "start failed"
            return st
        st.executed = True
        st.exec_input = norm_work_input(sv.get("input"))
        st.out[("starting", "started")] = (AVAIL, {})
        # 4. outcome
        es = dict(sc.get("exec") or {})
        tag = st.exec_input.get("tag") if isinstance(st.exec_input, dict) else None
        if isinstance(tag, str) and tag in (sc.get("exec_by_tag") or {}):
            es = sc["exec_by_tag"][tag]
        outcome = es.get("outcome") or "success"
        concrete = concretise(st.exec_input)
        st.cancelled_while_running = stopped_while
        if stopped_while and outcome == "hang":
            oc = es.get("on_cancel") or "error"
            if oc == "error":
                st.out[("outputs", "error")] = (AVAIL, {"reason": "cancelled " + s.src})
            elif oc == "success":
                st.out[("outputs", "success")] = (AVAIL, success_data(s.src, concrete))
            else:  # ignores the signal: force-closed after closure_wait_timeout -> crashed
                st.out[("crashed", "error")] = (AVAIL, {"output": ANYSTR})
            st.set_all(PLUGIN_OUTS, IMPOSSIBLE)
            return st
        if outcome == "success":
            st.out[("outputs", "success")] = (AVAIL, es.get("data") if es.get("data") is not None else success_data(s.src, st.exec_input))
        elif outcome == "error":
            st.out[("outputs", "error")] = (AVAIL, {"reason": es.get("msg") or ANYSTR})
        elif outcome == "alt":
            st.out[("outputs", "alt")] = (AVAIL, {"tag": ANYSTR if wild(concrete.get("tag")) else "%s(%s)" % (s.src, concrete.get("tag"))})
        elif outcome in ("crash", "serverfatal", "drop"):
            st.out[("crashed", "error")] = (AVAIL, {"output": ANYSTR})
        elif outcome == "hang":
            st.finishes = False
            st.why = "never finishes"
            for k in PLUGIN_OUTS:
                if k not in st.out:
                    st.out[k] = (PENDING, None)
            return st
        else:
            # misbehaving plugin (undeclared / illtyped / nildata): run-level behaviour not prescribed here
            st.why = "misbehaving:" + outcome
            st.finishes = True
            for k in PLUGIN_OUTS:
                if k not in st.out:
                    st.out[k] = ("unknown", None)
            return st
        st.set_all(PLUGIN_OUTS, IMPOSSIBLE)
        return st

    def _foreach(self, s):
        st = StepState(s.name)

        def stuck(status, why):
            st.why = why
            st.finishes = status != PENDING
            if status == IMPOSSIBLE:
                st.stuck_at = why.split(" ")[0]
            st.set_all(FOREACH_OUTS, status)
            if status == IMPOSSIBLE:
                st.out[("closed", "result")] = (PENDING, None)
            return st

        status, en = self.avail({"enabled": s.field("enabled")} if s.field("enabled") is not None else {})
        if status != AVAIL:
            return stuck(status, "enabled input " + status)
        enabled = en.get("enabled", True)
        if isinstance(enabled, (str, int)) and not isinstance(enabled, bool):
            # constants reach the providers as text; the stage declares a bool, which has these spellings
            low = str(enabled).lower()
            if low in ("true", "yes", "y", "on", "1", "enable", "enabled"):
                enabled = True
            elif low in ("false", "no", "n", "off", "0", "disable", "disabled"):
                enabled = False
        if enabled is False:
            st.out[("enabling", "resolved")] = (AVAIL, {"enabled": False})
            st.out[("disabled", "output")] = (AVAIL, {"message": ANYSTR})
            st.set_all(FOREACH_OUTS, IMPOSSIBLE)
            return st
        st.out[("enabling", "resolved")] = (AVAIL, {"enabled": True})
        st.out[("disabled", "output")] = (IMPOSSIBLE, None)
        tree = {}
        for f in ("items", "parallelism", "wait_for"):
            if s.field(f) is not None:
                tree[f] = s.field(f)
        status, sv = self.avail(tree)
        if status != AVAIL:
            return stuck(status, "execute input " + status)
        items = sv.get("items") or []
        st.executed = True
        st.items = []
        data, errors, pending = {}, {}, False
        for i, item in enumerate(concretise(items)):
            sub = RefSem(s.sub, self.scripts, normalise_input(s.sub.input_schema, item))
            st.items.append(sub)
            r = sub.result()
            if "success" in r["avail"] and len(r["avail"]) == 1:
                data[i] = r["avail"]["success"]
            elif r["avail"]:
                if "success" in r["avail"]:
                    data[i] = Choice([r["avail"]["success"]])
                    errors[i] = Maybe(ANYSTR)
                else:
                    errors[i] = ANYSTR
            elif r["pending"]:
                pending = True
            else:
                errors[i] = ANYSTR
        if pending:
            st.finishes = False
            st.set_all(FOREACH_OUTS, PENDING)
            return st
        if not errors:
            st.out[("outputs", "success")] = (AVAIL, {"data": [data[i] for i in range(len(items))]})
        else:
            st.out[("failed", "error")] = (AVAIL, {"data": data, "errors": errors})
        st.set_all(FOREACH_OUTS, IMPOSSIBLE)
        return st

    # ------------------------------------------------------------ whole run
    def result(self):
        av, pend, imp, fault, unmod = {}, [], [], {}, []
        self.all_states()
        for name, why in self.step_faults.items():
            fault["step:" + name] = why
        for oid, tree in self.p.outputs.items():
            try:
                av[oid] = self.eval_tree_strict(tree)
            except Unavail as u:
                (pend if u.kind == PENDING else imp).append(oid)
            except EvalFault as e:
                fault[oid] = str(e)
            except Unmodelled as e:
                unmod.append(oid)
        return {"avail": av, "pending": pend, "impossible": imp, "fault": fault, "unmodelled": unmod}

    def all_states(self):
        return {s.name: self.state(s.name) for s in self.p.steps}


def concretise(v):
    """Replaces pattern nodes by a concrete representative (used to feed deterministic functions)."""
    if isinstance(v, Maybe):
        return concretise(v.value)
    if isinstance(v, Choice):
        return concretise(v.alts[0])
    if isinstance(v, dict):
        return {k: concretise(x) for k, x in v.items() if x is not ABSENT}
    if isinstance(v, list):
        return [concretise(x) for x in v]
    return v


def has_freedom(v):
    if isinstance(v, (Maybe, Choice)):
        return True
    if isinstance(v, dict):
        return any(has_freedom(x) for x in v.values())
    if isinstance(v, list):
        return any(has_freedom(x) for x in v)
    return False


class InvalidInput(Exception):
    pass


def normalise_input(schema, doc):
    """Reference normalisation of a Go-valued input document against a vlib.model.InputSchema."""
    return _norm_props(schema, schema.props, doc, "$")


def _norm_props(schema, props, doc, path):
    if not isinstance(doc, dict):
        if len(props) == 1 and doc is not None and not isinstance(doc, list):
            # the schema language lets an object with a single property be written as that property's value
            (k, p), = props.items()
            return {k: _norm_type(schema, p["type"], doc, path + "." + k)}
        raise InvalidInput("%s: expected object" % path)
    out = {}
    for k in doc:
        if k not in props:
            raise InvalidInput("%s: unknown field %s" % (path, k))
    for k, p in props.items():
        if k in doc:
            if doc[k] is None:
                # an explicit null is a value, not an omission: no typed field accepts it
                raise InvalidInput("%s: null for field %s" % (path, k))
            out[k] = _norm_type(schema, p["type"], doc[k], path + "." + k)
        elif p.get("default") is not None:
            out[k] = _norm_type(schema, p["type"], p["default"], path + "." + k)
        elif p.get("required", True):
            raise InvalidInput("%s: missing required field %s" % (path, k))
    return out


def _norm_type(schema, t, v, path):
    if t == "string":
        if isinstance(v, bool):
            raise InvalidInput("%s: bool for string" % path)
        if isinstance(v, (int, float)):
            return str(v)
        if not isinstance(v, str):
            raise InvalidInput("%s: expected string" % path)
        return v
    if t == "integer":
        if isinstance(v, bool):
            raise InvalidInput("%s: bool for int" % path)
        if isinstance(v, int):
            return v
        if isinstance(v, float) and v == int(v):
            return int(v)
        if isinstance(v, str):
            try:
                return int(v)
            except ValueError:
                raise InvalidInput("%s: not an int: %r" % (path, v))
        raise InvalidInput("%s: expected int" % path)
    if t == "float":
        if isinstance(v, bool):
            raise InvalidInput("%s: bool for float" % path)
        if isinstance(v, (int, float)):
            return float(v)
        if isinstance(v, str):
            try:
                return float(v)
            except ValueError:
                raise InvalidInput("%s: not a float" % path)
        raise InvalidInput("%s: expected float" % path)
    if t == "bool":
        if isinstance(v, bool):
            return v
        if isinstance(v, str) and v.lower() in ("true", "false", "yes", "no", "on", "off", "y", "n", "1", "0", "enable", "disable", "enabled", "disabled"):
            return v.lower() in ("true", "yes", "on", "y", "1", "enable", "enabled")
        if isinstance(v, int) and v in (0, 1):
            return bool(v)
        raise InvalidInput("%s: expected bool" % path)
    if t[0] == "integer":
        x = _norm_type(schema, "integer", v, path)
        if t[1].get("min") is not None and x < t[1]["min"]:
            raise InvalidInput("%s: %d below minimum" % (path, x))
        if t[1].get("max") is not None and x > t[1]["max"]:
            raise InvalidInput("%s: %d above maximum" % (path, x))
        return x
    if t[0] == "string":
        x = _norm_type(schema, "string", v, path)
        if t[1].get("min") is not None and len(x) < t[1]["min"]:
            raise InvalidInput("%s: too short" % path)
        if t[1].get("max") is not None and len(x) > t[1]["max"]:
            raise InvalidInput("%s: too long" % path)
        return x
    if t[0] == "pattern":
        import re as _re
        if not isinstance(v, str):
            raise InvalidInput("%s: pattern must be a string" % path)
        try:
            _re.compile(v)
        except _re.error:
            raise InvalidInput("%s: invalid pattern" % path)
        return v
    if t[0] == "enum":
        if not isinstance(v, str) or v not in t[1]:
            raise InvalidInput("%s: %r not in enum" % (path, v))
        return v
    if t[0] == "list":
        if not isinstance(v, list):
            raise InvalidInput("%s: expected list" % path)
        return [_norm_type(schema, t[1], x, "%s[%d]" % (path, i)) for i, x in enumerate(v)]
    if t[0] == "map":
        if not isinstance(v, dict):
            raise InvalidInput("%s: expected map" % path)
        return {_norm_type(schema, t[1], k, path + "{key}"): _norm_type(schema, t[2], x, "%s[%s]" % (path, k)) for k, x in v.items()}
    if t[0] == "object":
        return _norm_props(schema, t[2], v, path)
    if t[0] == "ref":
        return _norm_props(schema, schema.objects[t[1]], v, path)
    raise InvalidInput("%s: type %r not modelled" % (path, t))
