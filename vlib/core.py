"""Check skeleton: tiers, seeds, verdict bookkeeping, known findings, evidence and replay files."""
import hashlib
import json
import os
import sys
import time

VERIF = os.path.dirname(os.path.dirname(os.path.abspath(__file__)))
EVIDENCE_DIR = os.path.join(VERIF, "evidence")
REPLAY_DIR = os.path.join(VERIF, "replays")
KNOWN_FILE = os.path.join(VERIF, "known_findings.json")


def load_known():
    try:
        with open(KNOWN_FILE) as fh:
            return json.load(fh).get("findings", [])
    except (OSError, ValueError):
        return []


def derive_seed(seed, *parts):
    h = hashlib.sha256(("%d|" % seed + "|".join(str(p) for p in parts)).encode()).digest()
    return int.from_bytes(h[:8], "big")


class Check:
    def __init__(self, pid, level="exploration", tier=None, seed=None):
        self.pid = pid
        self.level = level
        self.tier = os.environ.get("VERIF_TIER") or tier or "quick"
        if self.tier not in ("quick", "thorough"):
            self.tier = "quick"
        try:
            self.seed = int(os.environ.get("VERIF_SEED", "") or (seed if seed is not None else 1))
        except ValueError:
            self.seed = 1
        self.t0 = time.time()
        self.evaluations = 0
        self.distinct = set()
        self.samples = []
        self.violations = []  # (key, what, replay path)
        self.known_hits = {}  # key -> count
        self.known_samples = []
        self.inconclusive = []
        self.extra = {}
        self.assumptions = []
        self.rule = ""
        self.known = [k for k in load_known() if k.get("property") == pid]
        self.broken = None

    # ------------------------------------------------------------------ bookkeeping
    def quick(self):
        return self.tier == "quick"

    def pick(self, quick, thorough):
        return quick if self.tier == "quick" else thorough

    def count(self, n=1):
        self.evaluations += n

    def nontrivial(self, signature):
        self.distinct.add(signature if isinstance(signature, str) else json.dumps(signature, sort_keys=True, default=str))

    def sample(self, obj, limit=4):
        if len(self.samples) < limit:
            self.samples.append(obj)

    def inconclusive_case(self, cid, why):
        self.inconclusive.append({"case": cid, "why": why})

    def is_known(self, key):
        for k in self.known:
            if k.get("status") == "known" and k.get("key") == key:
                return k
        return None

    def report(self, key, what, replay_obj=None):
        """Records a violation of this check's property. Known findings are counted, not failed."""
        k = self.is_known(key)
        if k is not None:
            self.known_hits[key] = self.known_hits.get(key, 0) + 1
            if self.known_hits[key] <= 2:
                self.known_samples.append({"key": key, "what": what[:600]})
                dbg = os.environ.get("VERIF_KNOWN_DIR")
                if dbg and replay_obj is not None:
                    os.makedirs(dbg, exist_ok=True)
                    with open(os.path.join(dbg, "%s-known-%d.json" % (self.pid, len(self.known_samples))), "w") as fh:
                        json.dump({"key": key, "what": what, "replay": replay_obj}, fh, indent=1, default=str)
            return False
        if any(v[0] == key for v in self.violations) and len([v for v in self.violations if v[0] == key]) >= 3:
            self.violations.append((key, what, None))
            return True
        path = None
        if replay_obj is not None:
            os.makedirs(REPLAY_DIR, exist_ok=True)
            blob = json.dumps(replay_obj, sort_keys=True, default=str)
            h = hashlib.sha256(blob.encode()).hexdigest()[:12]
            path = os.path.join(REPLAY_DIR, "%s-%s.json" % (self.pid, h))
            with open(path, "w") as fh:
                json.dump({"property": self.pid, "key": key, "what": what, "seed": self.seed, "tier": self.tier, "replay": replay_obj}, fh, indent=1, default=str)
        self.violations.append((key, what, path))
        return True

    def fail_broken(self, why):
        self.broken = why

    # ------------------------------------------------------------------ finish
    def finish(self):
        wall = time.time() - self.t0
        cov = {
            "evaluations": int(self.evaluations),
            "distinct_nontrivial": len(self.distinct),
            "rule": self.rule,
            "samples": self.samples[:6] or [],
            "inconclusive": len(self.inconclusive),
            "inconclusive_cases": self.inconclusive[:10],
            "known_findings_matched": self.known_hits,
            "known_finding_samples": self.known_samples,
            "violation_keys": sorted(set(v[0] for v in self.violations)),
        }
        cov.update(self.extra)
        ev = {
            "property_id": self.pid,
            "tier": self.tier,
            "seed": int(self.seed),
            "level": self.level,
            "coverage": cov,
            "assumptions": self.assumptions,
            "wall_s": round(wall, 2),
            "violations": len(self.violations),
        }
        os.makedirs(EVIDENCE_DIR, exist_ok=True)
        tmp = os.path.join(EVIDENCE_DIR, self.pid + ".json.tmp")
        with open(tmp, "w") as fh:
            json.dump(ev, fh, indent=1, default=str)
        os.replace(tmp, os.path.join(EVIDENCE_DIR, self.pid + ".json"))
        for key, n in sorted(self.known_hits.items()):
            k = self.is_known(key)
            print("KNOWN-FINDING: property=%s %s [key=%s, seen %d time(s) in this run]" % (self.pid, k.get("what", ""), key, n))
        if self.broken and self.violations:
            # a sanity guard of the machinery failed, but violations were observed all the same (the guard's failure is then
            # usually a symptom, e.g. "no cancel signal ever observed"): the observations stand
            print("NOTE property=%s: sanity guard failed (%s); violations were observed nevertheless" % (self.pid, self.broken))
        elif self.broken:
            print("BROKEN-CHECK property=%s: %s" % (self.pid, self.broken))
            print("summary: property=%s tier=%s seed=%d evaluations=%d distinct=%d wall=%.1fs" % (self.pid, self.tier, self.seed, self.evaluations, len(self.distinct), wall))
            sys.stdout.flush()
            return 2
        seen = set()
        for key, what, path in self.violations:
            if key in seen:
                continue
            seen.add(key)
            print("VIOLATION property=%s replay=%s" % (self.pid, path or "-"))
            print("  key=%s: %s" % (key, what[:600]))
        print("summary: property=%s tier=%s seed=%d evaluations=%d distinct_nontrivial=%d inconclusive=%d known=%d violations=%d wall=%.1fs" % (
            self.pid, self.tier, self.seed, self.evaluations, len(self.distinct), len(self.inconclusive), sum(self.known_hits.values()), len(self.violations), wall))
        sys.stdout.flush()
        return 1 if self.violations else 0
