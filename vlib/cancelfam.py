"""Programs and logical cancellation instants for C05 / C06 (DESIGN.md C05, C06)."""
import random

from . import gen, ref
from .core import derive_seed
from .model import Expr, In, Ref, Program, Step


def prog_chain_hang(rng, behaviour):
    """a -> b(never ends by itself) -> c; behaviour of b on cancel: obey | ignore | nohandler | success"""
    steps = [gen.plugin_step("a", Expr(In("tag"))), gen.plugin_step("b", gen.tagref("a")), gen.plugin_step("c", gen.tagref("b"))]
    scripts = gen.make_scripts(steps, {})
    ex = {"outcome": "hang"}
    if behaviour == "obey":
        ex["on_cancel"] = "error"
    elif behaviour == "success":
        ex["on_cancel"] = "success"
    elif behaviour == "ignore":
        ex["on_cancel"] = "ignore"
        steps[1].fields["closure_wait_timeout"] = 40
    elif behaviour == "nohandler":
        steps[1].schema = "nocancel"
        scripts["b"]["schema"] = "nocancel"
    scripts["b"]["exec"] = ex
    outs = {"success": {"c": gen.tagref("c")}, "b_error": {"why": Expr(Ref("b", "outputs", "error", "reason"))}}
    return Program(steps, outs, gen.BASE_INPUT), scripts, "chain_hang/" + behaviour


def prog_parallel_hang(rng, k=3):
    steps = [gen.plugin_step("h%d" % i, Expr(In("tag"))) for i in range(k)]
    scripts = gen.make_scripts(steps, {})
    for i in range(k):
        scripts["h%d" % i]["exec"] = {"outcome": "hang", "on_cancel": rng.choice(["error", "error", "success"])}
    outs = {"success": {"r%d" % i: gen.tagref("h%d" % i) for i in range(k)}}
    return Program(steps, outs, gen.BASE_INPUT), scripts, "parallel_hang%d" % k


def prog_deploy_blocks(rng):
    steps = [gen.plugin_step("a", Expr(In("tag"))), gen.plugin_step("d", gen.tagref("a"))]
    scripts = gen.make_scripts(steps, {})
    scripts["d"]["deploys"] = [{}, {"block_ctx": True}]
    outs = {"success": {"d": gen.tagref("d")}}
    return Program(steps, outs, gen.BASE_INPUT), scripts, "deploy_blocks"


def prog_foreach_hang(rng, par=2):
    sub = gen.sub_program("sub.yaml", 1)
    steps = [Step("loop", "foreach", sub=sub, items=Expr(In("items")), parallelism=par)]
    scripts = gen.make_scripts(steps, {})
    scripts["sub_w0"]["exec"] = {"outcome": "hang", "on_cancel": "error"}
    outs = {"success": {"d": Expr(Ref("loop", "outputs", "success", "data"))}, "failed": {"e": Expr(Ref("loop", "failed", "error"))}}
    return Program(steps, outs, gen.BASE_INPUT), scripts, "foreach_hang"


def prog_finishing(rng, shape):
    steps, outs = gen.SHAPES[shape](rng)
    outcome = {}
    for s in steps:
        if s.kind == "plugin" and rng.random() < 0.2:
            outcome[s.name] = rng.choice(["error", "crash", "deployfail", "alt"])
    gen.add_error_outputs(rng, steps, outs, outcome, maxn=2)
    return Program(steps, outs, gen.BASE_INPUT), gen.make_scripts(steps, outcome), shape


NEVER_ENDING = [lambda rng: prog_chain_hang(rng, "obey"), lambda rng: prog_chain_hang(rng, "ignore"), lambda rng: prog_chain_hang(rng, "nohandler"),
                lambda rng: prog_chain_hang(rng, "success"), prog_parallel_hang, prog_deploy_blocks, prog_foreach_hang]
FINISHING = ["chain", "diamond", "fan_in", "wait_for", "deploy_expr", "enabled", "foreach", "foreach_after", "random_dag"]


def certain_events(prog, scripts, inp):
    """(kind, src, nth) of plugin-boundary events that certainly occur in a run that is not interrupted."""
    sem = ref.RefSem(prog, scripts, ref.normalise_input(prog.input_schema, inp))
    out = []
    for s in prog.steps:
        st = sem.state(s.name)
        if s.kind == "plugin":
            if st.deployed is not None:
                out.append(("deploy-call", s.src, 2))
            if st.deployed:
                out.append(("deploy-ok", s.src, 2))
            if st.executed:
                out.append(("exec-start", s.src, 1))
                if st.finishes:
                    out.append(("exec-end", s.src, 1))
        elif st.items:
            n = len(st.items)
            src = s.sub.steps[0].src
            par = s.field("parallelism") or 1
            for i in range(1, min(n, par if isinstance(par, int) else 1) + 1):
                out.append(("exec-start", src, i))
    return out, sem


def base_input(rng, nitems=3):
    d = gen.base_input(rng, nitems)
    return d
