"""Programs and logical cancellation instants for C05 / C06 (DESIGN.md C05, C06)."""
import random

from . import gen, ref
from .core import derive_seed
from .model import Expr, In, Ref, Program, Step


def prog_chain_hang(rng, behaviour):
    """a -> b(never ends by itself) -> c; behaviour of b on cancel: obey | ignore | nohandler | success"""
    steps = [gen.plugin_step("a", Expr(In("tag"))), gen.plugin_step("b", gen.tagref("a")), gen.plugin_step("c", gen.tagref("b"))]
    scripts = gen.make_scripts(steps, {})
    ex = {"outcome": "hang"}
    if behaviour == "obey":
        ex["on_cancel"] = "error"
    elif behaviour == "success":
        ex["on_cancel"] = "success"
    elif behaviour == "ignore":
        ex["on_cancel"] = "ignore"
        # 0 is a valid value: close by force at once
        steps[1].fields["closure_wait_timeout"] = rng.choice([40, 0, 0])
    elif behaviour == "nohandler":
        steps[1].schema = "nocancel"
        scripts["b"]["schema"] = "nocancel"
    scripts["b"]["exec"] = ex
    outs = {"success": {"c": gen.tagref("c")}, "b_error": {"why": Expr(Ref("b", "outputs", "error", "reason"))}}
    if rng.random() < 0.5:
        # the crash report of the step that is closed by force completes an output: the run may end on it
        outs["b_crashed"] = {"why": Expr(Ref("b", "crashed", "error"))}
    return Program(steps, outs, gen.BASE_INPUT), scripts, "chain_hang/" + behaviour + ("+crashed-output" if "b_crashed" in outs else "")


def prog_parallel_hang(rng, k=3):
    steps = [gen.plugin_step("h%d" % i, Expr(In("tag"))) for i in range(k)]
    scripts = gen.make_scripts(steps, {})
    for i in range(k):
        scripts["h%d" % i]["exec"] = {"outcome": "hang", "on_cancel": rng.choice(["error", "error", "success"])}
    outs = {"success": {"r%d" % i: gen.tagref("h%d" % i) for i in range(k)}}
    return Program(steps, outs, gen.BASE_INPUT), scripts, "parallel_hang%d" % k


def prog_deploy_blocks(rng):
    steps = [gen.plugin_step("a", Expr(In("tag"))), gen.plugin_step("d", gen.tagref("a"))]
    scripts = gen.make_scripts(steps, {})
    scripts["d"]["deploys"] = [{}, {"block_ctx": True}]
    outs = {"success": {"d": gen.tagref("d")}}
    return Program(steps, outs, gen.BASE_INPUT), scripts, "deploy_blocks"


def prog_foreach_hang(rng, par=2):
    sub = gen.sub_program("sub.yaml", 1)
    steps = [Step("loop", "foreach", sub=sub, items=Expr(In("items")), parallelism=par)]
    scripts = gen.make_scripts(steps, {})
    scripts["sub_w0"]["exec"] = {"outcome": "hang", "on_cancel": "error"}
    outs = {"success": {"d": Expr(Ref("loop", "outputs", "success", "data"))}, "failed": {"e": Expr(Ref("loop", "failed", "error"))}}
    return Program(steps, outs, gen.BASE_INPUT), scripts, "foreach_hang"


def prog_foreach_partial(rng):
    """A loop one item of which has already failed when the run is cancelled while another item is still executing."""
    sub = gen.sub_program("sub.yaml", 1)
    n = 3  # base_input() supplies the items i0..i2
    steps = [Step("loop", "foreach", sub=sub, items=Expr(In("items")), parallelism=rng.choice([2, 3, 4]))]
    scripts = gen.make_scripts(steps, {})
    by_tag = {"i%d" % k: {"outcome": "hang", "on_cancel": rng.choice(["error", "success"])} for k in range(1, n)}
    by_tag["i0"] = {"outcome": rng.choice(["crash", "error"])}
    scripts["sub_w0"]["exec_by_tag"] = by_tag
    outs = {"success": {"d": Expr(Ref("loop", "outputs", "success", "data"))}, "failed": {"e": Expr(Ref("loop", "failed", "error"))}}
    return Program(steps, outs, gen.BASE_INPUT), scripts, "foreach_partial/n=%d" % n


def prog_late_result(rng):
    """A never-ending step that answers the cancel signal with an output which other steps (a loop, a plugin step, a wait_for
    consumer) are waiting for: their input arrives only because the run is cancelled, while they are being closed."""
    on_cancel = rng.choice(["success", "success", "error"])
    ref_h = Ref("h", "outputs", "success", "tag") if on_cancel == "success" else Ref("h", "outputs", "error", "reason")
    steps = [gen.plugin_step("h", Expr(In("tag")))]
    kinds = rng.sample(["loop", "plugin", "wait_for"], rng.choice([1, 2, 3]))
    for k in kinds:
        if k == "loop":
            sub = gen.sub_program("sub.yaml", 1)
            steps.append(Step("loop", "foreach", sub=sub, items=[{"tag": Expr(ref_h)}, {"tag": Expr(In("tag"))}], parallelism=rng.choice([1, 2])))
        elif k == "plugin":
            steps.append(gen.plugin_step("p", Expr(ref_h)))
        else:
            steps.append(gen.plugin_step("w", Expr(In("tag")), wait_for=Expr(ref_h)))
    rng.shuffle(steps)
    last = [s for s in steps if s.name != "h"][0]
    outs = {"success": {"r": Expr(Ref(last.name, "outputs", "success"))}}
    scripts = gen.make_scripts(steps, {})
    scripts["h"]["exec"] = {"outcome": "hang", "on_cancel": on_cancel}
    return Program(steps, outs, gen.BASE_INPUT), scripts, "late_result/%s/%s" % (on_cancel, "+".join(sorted(kinds)))


def prog_finishing(rng, shape):
    steps, outs = gen.SHAPES[shape](rng)
    outcome = {}
    for s in steps:
        if s.kind == "plugin" and rng.random() < 0.2:
            outcome[s.name] = rng.choice(["error", "crash", "deployfail", "alt"])
    gen.add_error_outputs(rng, steps, outs, outcome, maxn=2)
    return Program(steps, outs, gen.BASE_INPUT), gen.make_scripts(steps, outcome), shape


def prog_parallel_hang_many(rng):
    """One output fed by 25-40 never-ending steps: after the cancellation they fail one after the other."""
    return prog_parallel_hang(rng, rng.choice([25, 30, 40]))


def prog_loops_waiting_to_be_enabled(rng):
    """Several loops whose `enabled` value is the result of step q (plus a never-ending step so that the run does not end by itself)."""
    q = gen.plugin_step("q", Expr(In("tag")), extra_input={"b": True})
    h = gen.plugin_step("h", Expr(In("tag")))
    steps = [q, h]
    for k in range(rng.choice([2, 3, 5])):
        steps.append(Step("L%d" % k, "foreach", sub=gen.sub_program("sub.yaml", 1), items=[{"tag": "i0"}, {"tag": "i1"}], enabled=Expr(Ref("q", "outputs", "success", "b"))))
    rng.shuffle(steps)
    prog = Program(steps, {"success": {"d": Expr(Ref("L0", "outputs", "success", "data")), "h": gen.tagref("h")}}, gen.BASE_INPUT)
    scripts = gen.make_scripts(steps, {})
    scripts["h"]["exec"] = {"outcome": "hang", "on_cancel": "error"}
    return prog, scripts, "loops-waiting-to-be-enabled"


def prog_loop_waiting_for_items(rng):
    """A loop whose items come from a never-ending step; next to `success` there is an output fed by the loop's failure report."""
    h = gen.plugin_step("h", Expr(In("tag")))
    loop = Step("loop", "foreach", sub=gen.sub_program("sub.yaml", 1), items=[{"tag": gen.tagref("h")}, {"tag": "k"}], parallelism=rng.choice([1, 2]))
    steps = [h, loop]
    rng.shuffle(steps)
    prog = Program(steps, {"success": {"d": Expr(Ref("loop", "outputs", "success", "data"))}, "failure": {"e": Expr(Ref("loop", "failed", "error"))}}, gen.BASE_INPUT)
    scripts = gen.make_scripts(steps, {})
    scripts["h"]["exec"] = {"outcome": "hang", "on_cancel": rng.choice(["error", "ignore"])}
    return prog, scripts, "loop-waiting-for-items"


def prog_deploy_waits(rng):
    """A step whose deployment configuration comes from a never-ending step; outputs for its result and for its deployment failure."""
    h = gen.plugin_step("h", Expr(In("tag")))
    x = gen.plugin_step("X", Expr(In("tag")), deploy={"deployer_name": "scripted", "tag": gen.tagref("h")})
    q = gen.plugin_step("q", Expr(In("tag")))
    steps = [h, x, q]
    rng.shuffle(steps)
    prog = Program(steps, {"done": {"x": gen.tagref("X")}, "undeployed": {"e": Expr(Ref("X", "deploy_failed", "error", "error")), "q": gen.tagref("q")}}, gen.BASE_INPUT)
    scripts = gen.make_scripts(steps, {})
    scripts["h"]["exec"] = {"outcome": "hang", "on_cancel": rng.choice(["error", "success"])}
    return prog, scripts, "deployment-configuration-from-never-ending-step"


NEVER_ENDING = [lambda rng: prog_chain_hang(rng, "obey"), lambda rng: prog_chain_hang(rng, "ignore"), lambda rng: prog_chain_hang(rng, "nohandler"),
                lambda rng: prog_chain_hang(rng, "success"), prog_parallel_hang, prog_deploy_blocks, prog_foreach_hang, prog_late_result, prog_foreach_partial, prog_parallel_hang_many, prog_loop_waiting_for_items, prog_deploy_waits]
FINISHING = ["chain", "diamond", "fan_in", "wait_for", "deploy_expr", "enabled", "foreach", "foreach_after", "random_dag"]


def slow_close(scripts, ms=30, only_never_ending=False):
    """Run-time deployments (all, or only those of steps that never end by themselves) take `ms` to close
    (a container that is slow to stop)."""
    import copy
    out = copy.deepcopy(scripts)
    for src, sc in out.items():
        if only_never_ending and (sc.get("exec") or {}).get("outcome") != "hang":
            continue
        ds = sc.get("deploys") or [{}, {}]
        while len(ds) < 2:
            ds.append(dict(ds[-1]) if ds else {})
        ds[1] = dict(ds[1], close_delay_ms=ms)
        sc["deploys"] = ds
    return out


def certain_events(prog, scripts, inp):
    """(kind, src, nth) of plugin-boundary events that certainly occur in a run that is not interrupted."""
    sem = ref.RefSem(prog, scripts, ref.normalise_input(prog.input_schema, inp))
    out = []
    for s in prog.steps:
        st = sem.state(s.name)
        if s.kind == "plugin":
            if st.deployed is not None:
                out.append(("deploy-call", s.src, 2))
            if st.deployed:
                out.append(("deploy-ok", s.src, 2))
            if st.executed:
                # the step reads the plugin's schema between picking up its input and entering the running stage
                out.append(("schema-read", s.src, 2))
                out.append(("exec-start", s.src, 1))
                if st.finishes:
                    out.append(("exec-end", s.src, 1))
        elif st.items:
            n = len(st.items)
            src = s.sub.steps[0].src
            par = s.field("parallelism") or 1
            for i in range(1, min(n, par if isinstance(par, int) else 1) + 1):
                out.append(("exec-start", src, i))
    return out, sem


def base_input(rng, nitems=3):
    d = gen.base_input(rng, nitems)
    return d


def cancel_cases(check, rn, prefix, nfin, nnever, kmax_quick=14, sched_points=0):
    """Builds cancellation cases at logical instants. Returns list of (case, sem, g)."""
    from . import runfam
    items = []
    idx = [0]

    def add(g, **opts):
        c, s = runfam.build_case("%s-%05d" % (prefix, idx[0]), g, **opts)
        idx[0] += 1
        items.append((c, s, g))

    fin = []
    for i in range(nfin):
        rng = random.Random(derive_seed(check.seed, prefix + "-fin", i))
        sh = FINISHING[i % len(FINISHING)]
        prog, scripts, name = prog_finishing(rng, sh)
        if i % 3 == 2:
            scripts = slow_close(scripts, 15)
            name += "/slow-close"
        fin.append({"program": prog, "scripts": scripts, "input": base_input(rng), "shape": name})
    rec_items = []
    for i, g in enumerate(fin):
        case, sem = runfam.build_case("%s-rec-%03d" % (prefix, i), g, plan={"record": True}, plan_scope="execute")
        rec_items.append((case, sem, g))
    rec = rn.run_cases([c for c, _s, _g in rec_items])
    for (case, sem, g) in rec_items:
        o = rec.get(case["id"], {})
        if "result" not in o:
            continue
        k_total = len(o["result"].get("events") or [])
        ks = list(range(1, k_total + 1))
        if check.quick() and len(ks) > kmax_quick:
            ks = sorted(random.Random(derive_seed(check.seed, case["id"])).sample(ks, kmax_quick))
        for k in ks:
            add(dict(g, shape=g["shape"] + "/cancel@%d" % k, cancel=("seq", k)), triggers=[{"seq": k, "action": "cancel:0"}])
        if sched_points:
            hits = sorted((o["result"].get("hits") or {}).items())
            rng = random.Random(derive_seed(check.seed, case["id"], "pts"))
            rng.shuffle(hits)
            for point, cnt in hits[:sched_points]:
                h = rng.choice([1, cnt])
                add(dict(g, shape=g["shape"] + "/cancel@%s#%d" % (point, h), cancel=("point", point, h)),
                    plan={"sites": [{"point": point, "hit": h, "action": "cancel:0"}], "record": True}, plan_scope="execute")
    for i in range(nnever):
        rng = random.Random(derive_seed(check.seed, prefix + "-never", i))
        prog, scripts, name = NEVER_ENDING[i % len(NEVER_ENDING)](rng)
        inp = base_input(rng)
        v = (i // len(NEVER_ENDING)) % 3
        if v:
            scripts = slow_close(scripts, only_never_ending=v == 2)
            name += "/slow-close" + ("-of-never-ending" if v == 2 else "")
        evs, _sem = certain_events(prog, scripts, inp)
        if len(evs) > check.pick(10, 30):
            evs = sorted(random.Random(derive_seed(check.seed, name, i)).sample(evs, check.pick(10, 30)))
        for (kind, src, nth) in evs:
            g = {"program": prog, "scripts": scripts, "input": inp, "shape": "%s/cancel@%s:%s#%d" % (name, kind, src, nth), "cancel": (kind, src, nth)}
            add(g, triggers=[{"kind": kind, "src": src, "nth": nth, "action": "cancel:0"}])
    return items
