"""Generators of run-mode workflow programs, outcome scripts and inputs (DESIGN.md §5.1)."""
import random

from .model import (Lit, In, Ref, Call, Bin, Not, Expr, OneOf, OrDisabled, Opt, Program, Step, InputSchema)

BASE_INPUT = InputSchema({
    "tag": {"type": "string"},
    "n": {"type": "integer", "required": False, "default": 3},
    "flag": {"type": "bool", "required": False, "default": True},
    "items": {"type": ("list", ("object", "Item", {"tag": {"type": "string"}})), "required": False},
})


def base_input(rng, nitems=None):
    d = {"tag": "T%d" % rng.randrange(1000)}
    if rng.random() < 0.5:
        d["n"] = rng.randrange(0, 50)
    if nitems is not None:
        d["items"] = [{"tag": "i%d" % i} for i in range(nitems)]
    return d


def tagref(step):
    return Expr(Ref(step, "outputs", "success", "tag"))


def plugin_step(name, tag_src, **kw):
    """tag_src: Expr/str for the required `tag` field."""
    inp = {"tag": tag_src}
    inp.update(kw.pop("extra_input", {}))
    return Step(name, "plugin", input=inp, **kw)


SUB_INPUT = InputSchema({"tag": {"type": "string"}}, root="Item")


def sub_program(name="sub.yaml", nsteps=1, with_error_output=False, other_output=None):
    steps = [plugin_step("w0", Expr(In("tag")), src=name.replace(".yaml", "") + "_w0")]
    for i in range(1, nsteps):
        steps.append(plugin_step("w%d" % i, tagref("w%d" % (i - 1)), src=name.replace(".yaml", "") + "_w%d" % i))
    last = "w%d" % (nsteps - 1)
    outs = {"success": {"t": tagref(last)}}
    if with_error_output:
        outs["error"] = {"why": Expr(Ref(last, "outputs", "error", "reason"))}
    if other_output:
        # a further declared output with its own shape, produced when the last step ends in `alt`
        outs[other_output] = {"reason": Expr(Ref(last, "outputs", "alt", "tag")), "n": 1}
    return Program(steps, outs, SUB_INPUT, name=name)


# ---------------------------------------------------------------- shapes
def shape_chain(rng, n):
    steps = [plugin_step("s0", Expr(In("tag")), extra_input={"n": Expr(In("n"))})]
    for i in range(1, n):
        steps.append(plugin_step("s%d" % i, tagref("s%d" % (i - 1)), extra_input={"n": Expr(Ref("s%d" % (i - 1), "outputs", "success", "n"))}))
    return steps, {"success": {"t": tagref("s%d" % (n - 1))}}


def shape_diamond(rng):
    steps = [
        plugin_step("a", Expr(In("tag"))),
        plugin_step("b", tagref("a")),
        plugin_step("c", tagref("a"), extra_input={"a": Expr(Ref("a", "outputs", "success"))}),
        plugin_step("d", tagref("b"), extra_input={"a": Expr(Ref("c", "outputs", "success", "tag")), "l": [tagref("b"), tagref("c")]}),
    ]
    return steps, {"success": {"t": tagref("d"), "c": tagref("c")}}


def shape_fan_in(rng, k):
    steps = [plugin_step("p%d" % i, Expr(In("tag"))) for i in range(k)]
    return steps, {"success": {"r%d" % i: tagref("p%d" % i) for i in range(k)}}


def shape_fan_in_step(rng, k):
    """k producers feed one consumer step through a list field."""
    steps = [plugin_step("p%d" % i, Expr(In("tag"))) for i in range(k)]
    steps.append(plugin_step("sink", Expr(In("tag")), extra_input={"l": [tagref("p%d" % i) for i in range(k)]}))
    return steps, {"success": {"t": tagref("sink"), "l": Expr(Ref("sink", "outputs", "success", "l"))}}


def shape_fan_out(rng, k):
    steps = [plugin_step("root", Expr(In("tag")))]
    steps += [plugin_step("c%d" % i, tagref("root")) for i in range(k)]
    return steps, {"success": {"r%d" % i: tagref("c%d" % i) for i in range(k)}}


def shape_wait_for(rng):
    kind = rng.choice(["output", "stage", "started", "resolved"])
    wf = {"output": Expr(Ref("a", "outputs", "success")), "stage": Expr(Ref("a", "outputs")),
          "started": Expr(Ref("a", "starting", "started")), "resolved": Expr(Ref("a", "enabling", "resolved"))}[kind]
    steps = [plugin_step("a", Expr(In("tag"))), plugin_step("b", Expr(In("tag")), wait_for=wf)]
    return steps, {"success": {"a": tagref("a"), "b": tagref("b")}}


def shape_deploy_expr(rng):
    steps = [plugin_step("a", Expr(In("tag"))),
             plugin_step("b", Expr(In("tag")), deploy={"deployer_name": "scripted", "tag": tagref("a")})]
    return steps, {"success": {"b": tagref("b")}}


def shape_enabled(rng):
    cond = rng.choice([Expr(In("flag")), Expr(Bin("==", Ref("a", "outputs", "success", "tag"), Lit("a(T1)"))),
                       Expr(Not(In("flag")))])
    steps = [plugin_step("a", Expr(In("tag"))), plugin_step("b", tagref("a"), enabled=cond)]
    outs = {"success": {"b": tagref("b")}, "skipped": {"m": Expr(Ref("b", "disabled", "output", "message")), "a": tagref("a")}}
    return steps, outs


def shape_foreach(rng, nsub=1, par=None, with_error_output=False):
    sub = sub_program("sub.yaml", nsub, with_error_output)
    fe = Step("loop", "foreach", sub=sub, items=Expr(In("items")))
    if par is not None:
        fe.fields["parallelism"] = par
    steps = [fe]
    outs = {"success": {"d": Expr(Ref("loop", "outputs", "success", "data"))},
            "failed": {"e": Expr(Ref("loop", "failed", "error"))}}
    return steps, outs


def shape_foreach_after(rng):
    sub = sub_program("sub.yaml", 1)
    steps = [plugin_step("a", Expr(In("tag"))),
             Step("loop", "foreach", sub=sub, items=[{"tag": tagref("a")}, {"tag": Expr(In("tag"))}], parallelism=2),
             plugin_step("z", Expr(In("tag")), extra_input={"a": Expr(Ref("loop", "outputs", "success", "data"))})]
    return steps, {"success": {"z": Expr(Ref("z", "outputs", "success"))}}


def shape_random_dag(rng, n):
    steps = []
    for i in range(n):
        prev = ["s%d" % j for j in range(i)]
        tag = Expr(In("tag")) if not prev or rng.random() < 0.3 else tagref(rng.choice(prev))
        extra = {}
        if prev and rng.random() < 0.4:
            extra["a"] = Expr(Ref(rng.choice(prev), "outputs", "success"))
        if prev and rng.random() < 0.3:
            extra["l"] = [tagref(rng.choice(prev)) for _ in range(rng.randrange(1, 4))]
        if rng.random() < 0.3:
            extra["n"] = Expr(In("n"))
        kw = {}
        if prev and rng.random() < 0.25:
            p = rng.choice(prev)
            kw["wait_for"] = rng.choice([Expr(Ref(p, "outputs", "success")), Expr(Ref(p, "outputs")), Expr(Ref(p, "starting", "started"))])
        if prev and rng.random() < 0.15:
            kw["deploy"] = {"deployer_name": "scripted", "tag": tagref(rng.choice(prev))}
        if rng.random() < 0.15:
            kw["enabled"] = Expr(In("flag"))
        steps.append(plugin_step("s%d" % i, tag, extra_input=extra, **kw))
    sinks = rng.sample(["s%d" % i for i in range(n)], min(n, rng.randrange(1, 4)))
    return steps, {"success": {"r_" + s: tagref(s) for s in sinks}}


def concat(*nodes):
    """String concatenation of several reference nodes: one expression with several dependencies."""
    e = nodes[0]
    for n in nodes[1:]:
        e = Bin("+", e, n)
    return e


def shape_multiref(rng):
    """Expressions with several references, the first of which is already connected to the consuming node through an
    earlier field or list item (so that 'already connected' paths of dependency building are exercised)."""
    a = plugin_step("a", Expr(In("tag")))
    b = plugin_step("b", Expr(In("tag")))
    ta, tb = Ref("a", "outputs", "success", "tag"), Ref("b", "outputs", "success", "tag")
    variant = rng.choice(["list", "map", "wait_for", "output-only"])
    c = plugin_step("c", Expr(ta), extra_input={"l": [Expr(ta), Expr(concat(ta, tb))]})
    if variant == "map":
        c = plugin_step("c", Expr(ta), extra_input={"a": {"first": Expr(ta), "both": Expr(concat(ta, tb, ta))}})
    elif variant == "wait_for":
        c = plugin_step("c", Expr(In("tag")), wait_for=[Expr(ta), Expr(concat(ta, tb))])
    elif variant == "output-only":
        c = plugin_step("c", Expr(concat(ta, tb)))
    outs = {"success": {"c": tagref("c"), "x": Expr(ta), "y": Expr(concat(ta, tb)), "z": [Expr(tb), Expr(concat(tb, ta))]}}
    if rng.random() < 0.5:
        # b is referred to only from inside the two-reference expression: its edge exists only if that expression is handled fully
        del outs["success"]["z"]
        if variant != "output-only":
            del outs["success"]["c"]
    return [a, b, c], outs


SHAPES = {
    "chain": lambda rng: shape_chain(rng, rng.randrange(1, 6)),
    "diamond": shape_diamond,
    "fan_in": lambda rng: shape_fan_in(rng, rng.choice([2, 3, 5, 8, 13, 19, 20, 21, 22, 25, 33, 45])),
    "fan_in_step": lambda rng: shape_fan_in_step(rng, rng.choice([2, 4, 9, 21, 30])),
    "fan_out": lambda rng: shape_fan_out(rng, rng.choice([2, 3, 6, 12])),
    "wait_for": shape_wait_for,
    "deploy_expr": shape_deploy_expr,
    "enabled": shape_enabled,
    "foreach": lambda rng: shape_foreach(rng, rng.choice([1, 2]), rng.choice([None, 1, 2, 5])),
    "foreach_after": shape_foreach_after,
    "random_dag": lambda rng: shape_random_dag(rng, rng.randrange(2, 9)),
    "multiref": shape_multiref,
}

OUTCOMES = ["success", "error", "alt", "crash", "drop", "deployfail", "hang"]


def add_error_outputs(rng, steps, outs, scripts_outcome, maxn=3):
    """Adds outputs observing the failure path of some steps."""
    cands = [s for s in steps if s.kind == "plugin"]
    rng.shuffle(cands)
    for s in cands[:maxn]:
        oc = scripts_outcome.get(s.name, "success")
        kind = rng.choice(["error", "crash", "deploy", "alt", "match", "match"])
        if kind == "match":
            kind = {"error": "error", "crash": "crash", "drop": "crash", "deployfail": "deploy", "alt": "alt"}.get(oc, "error")
        name = "%s_%s" % (kind, s.name)
        if kind == "error":
            outs[name] = {"why": Expr(Ref(s.name, "outputs", "error", "reason"))}
        elif kind == "crash":
            outs[name] = {"why": Expr(Ref(s.name, "crashed", "error"))}
        elif kind == "deploy":
            outs[name] = {"why": Expr(Ref(s.name, "deploy_failed", "error"))}
        elif kind == "alt":
            outs[name] = {"t": Expr(Ref(s.name, "outputs", "alt", "tag"))}


def make_scripts(steps, outcome, extra=None):
    scripts = {}
    for s in steps:
        if s.kind == "plugin":
            oc = outcome.get(s.name, "success")
            sc = {}
            if oc == "deployfail":
                sc["deploys"] = [{}, {"fail": "scripted deploy failure"}]
            elif oc == "hang":
                sc["exec"] = {"outcome": "hang", "on_cancel": "error"}
            else:
                sc["exec"] = {"outcome": oc}
            if s.schema != "work":
                sc["schema"] = s.schema
            scripts[s.src] = sc
        elif s.sub is not None:
            scripts.update(make_scripts(s.sub.steps, outcome.get(s.name + "/", {})))
    if extra:
        for k, v in extra.items():
            scripts.setdefault(k, {}).update(v)
    return scripts


def gen_case(rng, shape=None, outcomes=None, p_fail=0.3, error_outputs=True, nitems=None):
    """Returns dict(program, scripts, input, shape, outcome)."""
    shape = shape or rng.choice(list(SHAPES))
    steps, outs = SHAPES[shape](rng)
    outcome = {}
    pool = outcomes or ["error", "alt", "crash", "drop", "deployfail", "hang"]
    for s in steps:
        if s.kind == "plugin" and rng.random() < p_fail:
            outcome[s.name] = rng.choice(pool)
    has_fe = any(s.kind == "foreach" for s in steps)
    if has_fe and nitems is None:
        nitems = rng.choice([0, 1, 2, 3, 7])
    for s in steps:
        if s.kind == "foreach":
            # per-item outcomes through exec_by_tag on the first sub step
            pass
    if error_outputs:
        add_error_outputs(rng, steps, outs, outcome)
    prog = Program(steps, outs, BASE_INPUT)
    scripts = make_scripts(steps, outcome)
    inp = base_input(rng, nitems if has_fe else None)
    if has_fe:
        per_item = {}
        for it in inp.get("items", []):
            if rng.random() < p_fail / 2:
                per_item[it["tag"]] = {"outcome": rng.choice(["error", "crash"])}
        if per_item:
            for s in steps:
                if s.kind == "foreach":
                    first = s.sub.steps[0]
                    scripts.setdefault(first.src, {})["exec_by_tag"] = per_item
    return {"program": prog, "scripts": scripts, "input": inp, "shape": shape, "outcome": outcome}


# ---------------------------------------------------------------- run-time evaluation faults
def faulting_node(rng, step):
    """An expression over `step`'s success output that type-checks but cannot be evaluated at run time."""
    from .model import Call, Bin, Lit
    tag = Ref(step, "outputs", "success", "tag")
    k = rng.choice(["stringToInt", "divzero", "stringToInt"])
    if k == "divzero":
        return Bin("/", Lit(100), Bin("-", Ref(step, "outputs", "success", "n"), Ref(step, "outputs", "success", "n")))
    return Call("stringToInt", tag)


def add_fault(rng, steps, outs, where=None, optional=None):
    """Plants one evaluation fault. where: 'output' (a field of a declared output), 'step-needed' (input of a step the
    output needs), 'step-unneeded' (input of a step nothing needs). Returns a description."""
    from .model import Opt
    plugins = [s for s in steps if s.kind == "plugin" and s.schema == "work"]
    src = rng.choice(plugins)
    where = where or rng.choice(["output", "output", "step-needed", "step-unneeded"])
    node = faulting_node(rng, src.name)
    if where == "output":
        oid = "success" if "success" in outs and isinstance(outs["success"], dict) else rng.choice(sorted(k for k in outs if isinstance(outs[k], dict)))
        optional = rng.choice([None, None, "wait", "soft"]) if optional is None else optional
        if optional == "wait":
            outs[oid]["fz"] = Opt(node, True)
        elif optional == "soft":
            outs[oid]["fz"] = Opt(node, False)
        else:
            outs[oid]["fz"] = Expr(node)
        return "output:%s:%s<-%s" % (oid, optional or "required", src.name)
    fz = plugin_step("fz", tagref(src.name), extra_input={"n": Expr(node)})
    steps.append(fz)
    if where == "step-needed":
        outs.setdefault("success", {})["fz"] = tagref("fz")
    return "%s<-%s" % (where, src.name)
