"""Child-process execution of case batches and classification of child deaths (DESIGN.md §4.3, §6)."""
import json
import os
import re
import signal
import subprocess
import threading
import time

from . import build

ENGINE_PREFIXES = (
    "go.flow.arcalot.io/engine",
    "go.flow.arcalot.io/expressions",
    "go.flow.arcalot.io/pluginsdk",
    "go.arcalot.io/dgraph",
    "go.arcalot.io/lang",
    "gopkg.in/yaml",
)

BLOCKED_STATES = ("chan send", "chan receive", "select", "semacquire", "sync.Mutex.Lock", "sync.WaitGroup.Wait",
                  "sync.Cond.Wait", "select (no cases)", "sync.RWMutex.Lock", "sync.RWMutex.RLock", "chan send (nil chan)",
                  "chan receive (nil chan)")


def parse_goroutines(text):
    """Parses a Go goroutine dump into [{id, state, minutes, frames:[func...], created_by}]."""
    gs = []
    for block in re.split(r"\n\s*\n", text):
        m = re.search(r"^goroutine (\d+) (?:gp=\S+ m=\S+ (?:mp=\S+ )?)?\[([^\]]*)\]:", block, re.M)
        if not m:
            continue
        lines = block[m.end():].split("\n")
        frames = []
        created = ""
        for ln in lines:
            if ln.startswith("\t") or not ln.strip():
                continue
            if ln.startswith("created by "):
                created = ln[len("created by "):].split(" in goroutine")[0]
                continue
            f = ln.strip()
            i = f.rfind("(")
            if i > 0:
                f = f[:i]
            frames.append(f)
        state = m.group(2)
        gs.append({"id": int(m.group(1)), "state": state.split(",")[0].strip(), "raw_state": state,
                   "frames": frames, "created_by": created})
    return gs


def first_engine_frame(frames, harness_ok=False):
    for f in frames:
        if "internal/verif/" in f and not harness_ok:
            continue
        if f.startswith(ENGINE_PREFIXES):
            return f
    return ""


def short(fn):
    return fn.replace("go.flow.arcalot.io/engine/", "").replace("go.flow.arcalot.io/", "").replace("go.arcalot.io/", "")


def classify_death(stderr_text, exit_code, timed_out):
    """Returns {kind, key, detail} for a child that died during a case."""
    t = stderr_text
    info = {"kind": "exit", "key": "exit@%s" % exit_code, "detail": t[-3000:]}
    if "WARNING: DATA RACE" in t and "fatal error" not in t and "panic:" not in t and exit_code == 66:
        info.update(kind="race", key="race")
        return info
    m = re.search(r"^fatal error: (.*)$", t, re.M)
    pm = re.search(r"^panic: (.*)$", t, re.M)
    if m and "all goroutines are asleep" in m.group(1):
        gs = parse_goroutines(t[m.start():])
        sig = deadlock_signature(gs)
        info.update(kind="deadlock", key="deadlock@" + sig, detail=t[m.start():m.start() + 6000])
        return info
    if pm and (not m or pm.start() < m.start()):
        msg = pm.group(1)
        rest = t[pm.start():]
        gs = parse_goroutines(rest)
        site = ""
        for g in gs:
            if "running" in g["state"]:
                fr = [f for f in g["frames"] if not f.startswith("panic") and not f.startswith("runtime.")]
                site = first_engine_frame(fr) or (fr[0] if fr else "")
                break
        if not site and gs:
            site = first_engine_frame(gs[0]["frames"])
        info.update(kind="panic", key="panic@" + short(site), detail=rest[:6000], message=msg)
        return info
    if m:
        msg = m.group(1)
        rest = t[m.start():]
        gs = parse_goroutines(rest)
        site = ""
        for g in gs:
            if "running" in g["state"]:
                site = first_engine_frame(g["frames"])
                if site:
                    break
        cls = re.sub(r"[^a-z ]", "", msg.lower())[:40].strip().replace(" ", "-")
        info.update(kind="fatal", key="fatal@%s@%s" % (cls, short(site)), detail=rest[:6000], message=msg)
        return info
    if timed_out:
        # SIGQUIT dump: structural deadlock iff every goroutine with an engine frame is blocked without a timer
        i = t.find("SIGQUIT: quit")
        dump = t[i:] if i >= 0 else t
        gs = parse_goroutines(dump)
        eng = [g for g in gs if first_engine_frame(g["frames"], harness_ok=True)]
        structural = bool(eng) and all(g["state"] in BLOCKED_STATES and not any(f.startswith("time.") for f in g["frames"]) for g in eng)
        if structural:
            info.update(kind="deadlock", key="deadlock@" + deadlock_signature(gs), detail=dump[:8000])
        else:
            info.update(kind="timeout", key="timeout", detail=dump[:8000])
        return info
    return info


def deadlock_signature(gs):
    sig = set()
    for g in gs:
        f = first_engine_frame(g["frames"])
        if not f:
            continue
        if g["state"] in ("chan send", "chan receive", "select", "chan send (nil chan)", "chan receive (nil chan)"):
            sig.add("%s@%s" % (g["state"].replace(" ", "-"), short(f)))
    if not sig:
        for g in gs:
            f = first_engine_frame(g["frames"])
            if f:
                sig.add("%s@%s" % (g["state"].replace(" ", "-"), short(f)))
    return "|".join(sorted(sig))


class Runner:
    """Builds the runner once (from the current /repo tree) and executes cases in child processes."""

    def __init__(self, race=False, instrument=True, work=None, jobs=None):
        self.work = work or build.scratch()
        self.own = work is None
        self.race = race
        self.bin, self.points = build.build_runner(self.work, race=race, instrument=instrument)
        self.jobs = jobs or int(os.environ.get("VERIF_JOBS", "16"))
        self.nbatch = 0
        self.lock = threading.Lock()
        self.race_reports = []

    CANARY_WF = """version: v0.2.0
input: {root: RootObject, objects: {RootObject: {id: RootObject, properties: {}}}}
steps:
  w: {plugin: {src: canary_w, deployment_type: scripted}, input: {tag: x}}
outputs:
  success: {t: !expr "$.steps.w.outputs.success.tag"}
"""

    def hang_oracle_works(self):
        """Canary: a run whose only output waits for a never-ending step must be reported by the Go runtime as
        'all goroutines are asleep - deadlock!'. If it is not (for example because the binary was linked with cgo),
        the hang oracle is blind and every check relying on it must fail as broken rather than pass."""
        case = {"id": "hang-oracle-canary", "files": {"workflow.yaml": self.CANARY_WF}, "scripts": {"canary_w": {"exec": {"outcome": "hang"}}}, "runs": [{"input": {}}], "no_events": True}
        o = self.run_cases([case], per_case_timeout=15, jobs=1).get("hang-oracle-canary", {})
        d = o.get("death") or {}
        return d.get("kind") == "deadlock" and d.get("exit_code") == 2

    def close(self):
        if self.own:
            build.cleanup(self.work)

    def __enter__(self):
        return self

    def __exit__(self, *a):
        self.close()

    def run_cases(self, cases, per_case_timeout=60.0, jobs=None, env_extra=None, chunk=None):
        """Runs all cases; returns dict id -> {"result": {...}} or {"death": {...}}."""
        jobs = jobs or self.jobs
        out = {}
        if not cases:
            return out
        nshards = min(jobs, len(cases))
        if chunk:
            nshards = max(nshards, (len(cases) + chunk - 1) // chunk)
        shards = [cases[i::nshards] for i in range(nshards)]
        sem = threading.Semaphore(jobs)
        threads = []

        def work(shard):
            with sem:
                r = self._run_shard(shard, per_case_timeout, env_extra)
            with self.lock:
                out.update(r)

        for s in shards:
            th = threading.Thread(target=work, args=(s,))
            th.start()
            threads.append(th)
        for th in threads:
            th.join()
        return out

    def _run_shard(self, shard, per_case_timeout, env_extra):
        with self.lock:
            self.nbatch += 1
            n = self.nbatch
        d = os.path.join(self.work, "b%05d" % n)
        os.makedirs(d, exist_ok=True)
        batch = os.path.join(d, "batch.jsonl")
        with open(batch, "w") as fh:
            for c in shard:
                fh.write(json.dumps(c) + "\n")
        outp = os.path.join(d, "out.jsonl")
        results = {}
        skip = 0
        attempt = 0
        ids = [c["id"] for c in shard]
        while skip < len(shard):
            attempt += 1
            errp = os.path.join(d, "stderr.%d" % attempt)
            env = dict(os.environ)
            if self.race:
                env["GORACE"] = "halt_on_error=0 log_path=%s" % os.path.join(d, "race.%d" % attempt)
            if env_extra:
                env.update(env_extra)
            if os.path.exists(outp):
                os.remove(outp)
            with open(errp, "w") as ef:
                p = subprocess.Popen([self.bin, batch, outp, str(skip)], stdout=ef, stderr=ef, env=env, cwd=d)
                last_size = -1
                last_change = time.time()
                timed_out = False
                while True:
                    try:
                        p.wait(timeout=0.05)
                        break
                    except subprocess.TimeoutExpired:
                        pass
                    try:
                        sz = os.path.getsize(outp)
                    except OSError:
                        sz = 0
                    now = time.time()
                    if sz != last_size:
                        last_size, last_change = sz, now
                    elif now - last_change > per_case_timeout:
                        timed_out = True
                        p.send_signal(signal.SIGQUIT)
                        try:
                            p.wait(timeout=20)
                        except subprocess.TimeoutExpired:
                            p.kill()
                            p.wait()
                        break
            done, started = self._parse_out(outp)
            for r in done:
                results[r["id"]] = {"result": r}
            ndone = len(done)
            if self.race:
                self._collect_race(d, attempt, [r["id"] for r in done] + ([started] if started else []))
            if started is not None:
                # the child died (or was killed) inside this case
                try:
                    text = open(errp, errors="replace").read()
                except OSError:
                    text = ""
                death = classify_death(text, p.returncode, timed_out)
                death["exit_code"] = p.returncode
                dbg = os.environ.get("VERIF_DEBUG_DIR")
                if dbg:
                    os.makedirs(dbg, exist_ok=True)
                    with open(os.path.join(dbg, "%s.stderr" % started), "w") as fh:
                        fh.write(text)
                results[started] = {"death": death}
                skip += ndone + 1
            else:
                skip += ndone
                if p.returncode not in (0, 75) and ndone == 0:
                    # died outside any case: harness problem; do not loop forever
                    text = open(errp, errors="replace").read()
                    for cid in ids[skip:]:
                        results[cid] = {"death": {"kind": "harness", "key": "harness", "detail": text[-3000:], "exit_code": p.returncode}}
                    break
        return results

    def _parse_out(self, outp):
        done = []
        started = None
        try:
            with open(outp, errors="replace") as fh:
                for line in fh:
                    line = line.strip()
                    if not line:
                        continue
                    try:
                        r = json.loads(line)
                    except ValueError:
                        continue
                    if "start" in r:
                        started = r["start"]
                    else:
                        done.append(r)
                        if started == r.get("id"):
                            started = None
        except OSError:
            pass
        return done, started

    def _collect_race(self, d, attempt, case_ids):
        pref = "race.%d." % attempt
        for f in os.listdir(d):
            if f.startswith(pref):
                try:
                    text = open(os.path.join(d, f), errors="replace").read()
                except OSError:
                    continue
                for rep in parse_race_reports(text):
                    rep["cases"] = case_ids[:50]
                    with self.lock:
                        self.race_reports.append(rep)


def parse_race_reports(text):
    reps = []
    for block in text.split("=================="):
        if "WARNING: DATA RACE" not in block:
            continue
        stacks = []
        cur = None
        for ln in block.split("\n"):
            if re.match(r"^(Read|Write|Previous read|Previous write|Atomic|Previous atomic)", ln.strip()):
                cur = {"op": ln.strip().split(" at ")[0], "frames": []}
                stacks.append(cur)
            elif ln.strip().startswith("Goroutine "):
                cur = None
            elif cur is not None and ln.startswith("  ") and not ln.startswith("      ") and ln.strip():
                f = ln.strip()
                i = f.rfind("(")
                if i > 0:
                    f = f[:i]
                cur["frames"].append(f)
        reps.append({"stacks": stacks, "text": block[:6000]})
    return reps


def race_key(rep):
    """Dedup key: the innermost engine frame of each of the two accesses (sorted)."""
    tops = []
    for st in rep["stacks"][:2]:
        f = ""
        for fr in st["frames"]:
            if fr.startswith(ENGINE_PREFIXES) and "internal/verif/" not in fr:
                f = short(fr)
                break
        tops.append(f or (short(st["frames"][0]) if st["frames"] else "?"))
    return "race@" + "|".join(sorted(tops))


def race_is_engine(rep):
    for st in rep["stacks"][:2]:
        for fr in st["frames"]:
            if fr.startswith("go.flow.arcalot.io/engine") and "internal/verif/" not in fr:
                return True
    return False
