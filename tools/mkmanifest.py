#!/usr/bin/env python3
"""Regenerates /verif/MANIFEST.json from the table below (keeps the file schema-valid)."""
import json
import os

V = os.path.dirname(os.path.dirname(os.path.abspath(__file__)))
props = [json.loads(l) for l in open(os.path.join(V, "properties.jsonl"))]

CHECKS = {
    "C01": dict(cat="exploration", tech="runtime monitoring: Go-runtime deadlock oracle + result-shape monitor over generated workflows, outcome vectors and injected delays",
                text="Held on every executed run of the explored programs/outcome vectors/delay plans: each returned exactly one declared output or an error and no child process deadlocked. Exploration, not exhaustive: liveness is restated as 'returns before every goroutine is blocked'.",
                note="Trusted: Go runtime deadlock detector, scripted plugin (harness/splugin), reference semantics (vlib/ref.py) for deciding which runs must end by themselves.", ref="8/C01"),
}

NOT_APPLICABLE = {}

checks = []
for p in props:
    pid = p["id"]
    c = CHECKS.get(pid)
    if not c:
        continue
    checks.append({
        "property_id": pid,
        "quick_cmd": "bin/check %s --tier quick" % pid,
        "thorough_cmd": "bin/check %s --tier thorough" % pid,
        "evidence_file": "/verif/evidence/%s.json" % pid,
        "replay_cmd_template": "bin/check %s --replay {path}" % pid,
        "engine": "runmon",
        "level_claimed": {"category": c["cat"], "text": c["text"], "design_ref": "DESIGN.md section " + c["ref"]},
        "level_note": c["note"],
        "technique": c["tech"],
    })
na = [{"property_id": p["id"], "reason": NOT_APPLICABLE.get(p["id"], "check not built yet in this session (work in progress; will be claimed once its monitor is calibrated)")}
      for p in props if p["id"] not in CHECKS]
m = {
    "version": 1,
    "setup_cmd": "bin/setup",
    "hooks": {
        "guard": "verif",
        "enable": "no source hooks in /repo: checks compile /verif/harness into the engine module with `go build -tags verif -overlay <generated> -modfile <private copy>`; the overlay also replaces workflow/workflow.go and the two step providers by copies instrumented (from the current working tree, at check time) with schedule points",
        "baseline_off_cmd": "bin/baseline",
        "source_commits": [],
        "add_only": True,
    },
    "engines": [
        {"name": "runmon", "path": "/verif/bin/check", "serves_properties": [c["property_id"] for c in checks],
         "kind_free_text": "runtime monitoring: real engine code built from /repo's working tree with an overlaid scripted deployer/ATP plugin, schedule-point instrumentation, child processes, event-log monitors, Go race detector"},
    ],
    "checks": checks,
    "not_applicable": na,
    "notes": "See DESIGN.md. Known findings: known_findings.json. Seeded breakages used for calibration: seeded/.",
}
with open(os.path.join(V, "MANIFEST.json"), "w") as fh:
    json.dump(m, fh, indent=1)
print("MANIFEST.json: %d checks, %d not_applicable" % (len(checks), len(na)))
