#!/usr/bin/env python3
"""Regenerates /verif/MANIFEST.json from the table below (keeps the file schema-valid)."""
import json
import os

V = os.path.dirname(os.path.dirname(os.path.abspath(__file__)))
props = [json.loads(l) for l in open(os.path.join(V, "properties.jsonl"))]

CHECKS = {
    "C01": dict(cat="exploration", tech="runtime monitoring: Go-runtime deadlock oracle + result-shape monitor over generated workflows, outcome vectors and injected delays",
                text="Held on every executed run of the explored programs/outcome vectors/delay plans: each returned exactly one declared output or an error and no child process deadlocked (apart from listed known findings). Exploration, not exhaustive: liveness is restated as 'returns before every goroutine is blocked'.",
                note="Trusted: Go runtime deadlock detector, scripted plugin (harness/splugin), reference semantics (vlib/ref.py) for deciding which runs must end by themselves.", ref="8/C01"),
    "C02": dict(cat="exploration", tech="runtime monitoring: offline ordering+value monitor over the plugin-boundary event log, gates forcing consumer-first schedules, injected delays",
                text="On every explored run, each plugin execution / deployment was preceded in the log by the production of everything it refers to and received exactly the reference evaluation of its field trees over the logged producer values. Sampled programs and schedules only.",
                note="Trusted: event log sequence numbers (assigned under one lock at the plugin boundary), unique provenance of scripted values, vlib/ref.py mini evaluator.", ref="8/C02"),
    "C03": dict(cat="exploration", tech="runtime monitoring: reference-model oracle (producible-set fixpoint) over returned (id,data,err); outcome vectors enumerated for small shapes",
                text="Every explored run returned a result inside the set the declarative meaning allows (unique producible output, data equal to the reference evaluation, error iff nothing producible). Outcome vectors are exhaustive for 6 small shapes in the thorough tier, sampled otherwise.",
                note="Trusted: vlib/ref.py (Appendix B). Error texts are not compared.", ref="8/C03"),
    "C04": dict(cat="exploration", tech="runtime monitoring: executed-set monitor at the plugin boundary vs reference may-run set; positional failure enumeration; two-hop stop-before-start",
                text="No plugin code was observed executing when the reference says it must not (failed/crashed/disabled prerequisite, disabled step, stop before start) on all enumerated positions/kinds and sampled programs with delays.",
                note="Trusted: vlib/ref.py; one-hop stop_if timing is genuinely ambiguous and not asserted.", ref="8/C04"),
    "C05": dict(cat="fault_enumeration", tech="runtime monitoring: deploy/close conservation + goroutine census (runtime.Stack) after every exit path; enumerated deployment/protocol faults and cancellation instants",
                text="For every enumerated (step, phase, fault) and cancellation instant, at execute-return / prepare-return all deployed plugins were closed and no engine/ATP goroutine survived the settle window. Enumeration is complete only over the listed fault kinds, shapes and logged event indices.",
                note="Trusted: harness deployer counts, goroutine census by frame package; third-party deployers out of scope.", ref="8/C05"),
    "C06": dict(cat="fault_enumeration", tech="runtime monitoring: cancel at every logged event index / certain event / schedule point; signal-reachability + conservation monitors, deadlock oracle, bounded-time re-check",
                text="For every enumerated cancellation instant the run returned (no deadlock), every plugin executing at cancellation received the cancel signal before being closed (or was closed if it has no handler), nothing stayed open, outputs had produced dependencies, and the stated time bound held.",
                note="Time bound is wall-clock with slack and isolated re-run; other oracles are logical.", ref="8/C06"),
    "C07": dict(cat="exploration", tech="runtime monitoring: child-process exit oracle (panic / fatal error / deadlock) over run-time-failing expressions at every field position and misbehaving scripted plugins",
                text="None of the explored runs of accepted workflows on valid input killed the process: every injected evaluation fault (23 classes x 13 positions) and plugin misbehaviour ended in a returned error or output.",
                note="Trusted: child exit status and stderr classification; fault classes are the enumerated ones only.", ref="8/C07"),
    "C08": dict(cat="exploration", tech="runtime monitoring: schema-validation monitors at the plugin boundary and on returned outputs, 'bug:' scan, coverage table over every referencable (stage, output, field)",
                text="For every referencable stage output and field of both step kinds, routed to workflow outputs, `any` inputs and typed inputs, the values observed at the plugin boundary were accepted by the step's own schema, returned outputs unserialized with OutputSchema(), values equalled the reference and no 'bug:' error occurred.",
                note="'Conforms' means accepted by the declared schema's Unserialize. One cell (ref-typed field inferred into a workflow output) is blocked by a known C11 finding.", ref="8/C08"),
    "C09": dict(cat="exploration", tech="runtime monitoring: schedule-point instrumentation (AST-spliced), single-site delay sweep over every hit point plus hash-determined multi-site plans; oracle = reference result",
                text="Under every executed delay plan (each hit schedule point x hit x delay, and random multi-site plans) the 14 single-result programs returned their reference result, except inside one recorded window (known finding). Delay placements and lengths are sampled, not exhausted.",
                note="Trusted: instrumenter places points before lock/channel/wait-group/go statements of workflow.go and both providers; Go goroutines are preemptible at those places.", ref="8/C09"),
    "C17": dict(cat="exploration", tech="Go race detector (-race build of engine + harness) over run, delay, cancellation, overlapping-run and parallel parse/prepare workloads; reports de-duplicated by frame pair",
                text="No data race with an engine frame was reported on the explored executions apart from the listed known finding (lazy default-value cache of the plugin SDK shared by overlapping runs).",
                note="Only executed interleavings; detector history window is bounded.", ref="8/C17"),
    "C10": dict(cat="exploration", tech="runtime monitoring: reference-model oracle on the prepared graph read through DAG() (expected graph derived from the program) plus enumerated single-point corruptions that must be rejected",
                text="For every generated program the prepared graph (nodes, kinds, typed dependencies incl. group nodes of tags) equalled the graph implied by the text, and every enumerated single-point corruption (cycles through each field, dangling and ill-typed references/literals, missing/unknown keys) was rejected by Prepare.",
                note="Trusted: vlib/dagref.py (Appendix A). Programs and corruption kinds are the generated ones only.", ref="8/C10"),
    "C11": dict(cat="exploration", tech="runtime monitoring: child-process crash/stall oracle over enumerated structural YAML corruptions, sub-workflow file trees on disk, input documents and seeded byte mutations through engine.Parse/Run",
                text="None of the explored workflow / sub-workflow / input files crashed, overflowed the stack or stalled the engine entry point; sub-workflow trees were found or reported missing as expected.",
                note="Trusted: child exit classification and a 45 s watchdog. Byte mutations are seeded samples; native coverage-guided fuzzing is not part of the verdict.", ref="8/C11"),
    "C16": dict(cat="exploration", tech="runtime monitoring: canonical-form equality monitor over 30+ repeated preparations per text in one process and over key-permuted / consistently renamed variants",
                text="All repeated preparations of each explored text gave one verdict and one canonical form (DAG, output schemas, namespaces up to generated ids); permuted and renamed variants gave the same form modulo ordering and names.",
                note="Map-iteration orders are whatever the Go runtime produced over the repetitions; generated ids are unified when comparing variants.", ref="8/C16"),
    "C12": dict(cat="exploration", tech="runtime monitoring: provider-level harness (RunnableStep.Start with a recording handler), lifecycle trace monitor, porcupine linearizability check of once-only stage inputs, deadlock oracle",
                text="On all enumerated action sequences (length <= 3 quick / 4 thorough), sampled longer and overlapped histories, the plugin step's notifications formed a legal life story (each stage finished at most once and never also impossible, declared outputs only, exactly one completion then state finished), close calls returned without error and nothing was notified after they returned, provides never blocked and were accepted at most once per stage.",
                note="Trusted: porcupine v1.3.0, event-log sequence numbers taken at the client boundary; NextStages edges are deliberately not asserted.", ref="8/C12"),
    "C13": dict(cat="exploration", tech="runtime monitoring: reference-model oracle on loop results plus order/length/index-set/high-water-mark monitors over the plugin-boundary log; gates forcing out-of-order completion",
                text="For all explored item lists, parallelism values, per-item outcomes, forced out-of-order completions, nested loops and mid-loop cancellations the loop reported results in item order with exact failing index sets, each item execution saw its own item, and never more than `parallelism` item executions were open.",
                note="Trusted: vlib/ref.py foreach rule; parallelism is checked on non-nested loops only.", ref="8/C13"),
    "C14": dict(cat="exploration", tech="runtime monitoring: per-run reference oracle and tag-isolation monitor over sequential, overlapped (up to 32) and cancelled runs of one prepared workflow and of two preparations of one text",
                text="Every explored run returned what an isolated run with its input returns, no plugin input mixed data of two runs, and cancelling one run of an overlapped group did not perturb its siblings.",
                note="Scripts depend only on the run's input tag, so each run has an independent reference.", ref="8/C14"),
    "C15": dict(cat="exploration", tech="runtime monitoring: presence/ordering/value monitors per tag kind against the reference (set-valued for schedule-dependent presence), gates forcing both completion orders, deadlock oracle for never-ending optional sources",
                text="For all explored placements, source outcomes and completion orders: wait-optional consumers started only after the source's terminal event and saw the field exactly when the source produced it, soft-optional never delayed a consumer and carried the source's value when present, one-of carried a produced alternative with its discriminator, or-disabled yielded result or disabled message.",
                note="Trusted: vlib/ref.py tag semantics.", ref="8/C15"),
    "C18": dict(cat="exploration", tech="runtime monitoring: in-process property-based monitor (recover around every call) with schema-driven boundary-class argument generation, law oracles and a differential check Call vs expression Evaluate/Type",
                text="For all generated argument lists of every built-in function (only values the declared parameter schemas accept): no panic (one known finding), deterministic results accepted by the declared or derived result type, and the documented laws held; the same holds through the expression library.",
                note="Argument classes are sampled (boundary values plus random); readFile/getEnvVar only for totality and determinism.", ref="8/C18"),
    "C19": dict(cat="exploration", tech="runtime monitoring: reference validator/normaliser oracle vs deploy counter and plugin-visible values, over generated schemas x single-point invalidations through both entry points",
                text="Every clearly invalid document was refused with an error before any plugin was deployed for execution, and for every valid document both steps and the workflow output observed exactly the reference normalisation (typed values, defaults), through Execute and through engine.Workflow.Run.",
                note="Reference normaliser vlib/ref.py covers the generated schema subset; convertible border cases are not generated.", ref="8/C19"),
    "C20": dict(cat="exploration", tech="runtime monitoring: differential monitor engine API (files on disk, abs/relative context, several working directories, memory/disk caches, repetitions) vs direct Prepare+Execute vs reference; real CLI binary for exit codes",
                text="All explored workflow trees gave the same id and data through the engine entry point and through direct execution, equal to the reference, with outputIsError exactly on declared/named error outputs, independently of working directory, cache kind and repetition; the command line exit codes matched the table.",
                note="Trusted: scripted deployer registered by reassigning engine.DefaultDeployerRegistry (harness) and an overlaid init() for the CLI.", ref="8/C20"),
}

NOT_APPLICABLE = {}

checks = []
for p in props:
    pid = p["id"]
    c = CHECKS.get(pid)
    if not c:
        continue
    checks.append({
        "property_id": pid,
        "quick_cmd": "bin/check %s --tier quick" % pid,
        "thorough_cmd": "bin/check %s --tier thorough" % pid,
        "evidence_file": "/verif/evidence/%s.json" % pid,
        "replay_cmd_template": "bin/check %s --replay {path}" % pid,
        "engine": "runmon",
        "level_claimed": {"category": c["cat"], "text": c["text"], "design_ref": "DESIGN.md section " + c["ref"]},
        "level_note": c["note"],
        "technique": c["tech"],
    })
na = [{"property_id": p["id"], "reason": NOT_APPLICABLE.get(p["id"], "check not built yet in this session (work in progress; will be claimed once its monitor is calibrated)")}
      for p in props if p["id"] not in CHECKS]
m = {
    "version": 1,
    "setup_cmd": "bin/setup",
    "hooks": {
        "guard": "verif",
        "enable": "no source hooks in /repo: checks compile /verif/harness into the engine module with `go build -tags verif -overlay <generated> -modfile <private copy>`; the overlay also replaces workflow/workflow.go and the two step providers by copies instrumented (from the current working tree, at check time) with schedule points",
        "baseline_off_cmd": "bin/baseline",
        "source_commits": [],
        "add_only": True,
    },
    "engines": [
        {"name": "runmon", "path": "/verif/bin/check", "serves_properties": [c["property_id"] for c in checks],
         "kind_free_text": "runtime monitoring: real engine code built from /repo's working tree with an overlaid scripted deployer/ATP plugin, schedule-point instrumentation, child processes, event-log monitors, Go race detector"},
    ],
    "checks": checks,
    "not_applicable": na,
    "notes": "See DESIGN.md. Known findings: known_findings.json. Seeded breakages used for calibration: seeded/.",
}
with open(os.path.join(V, "MANIFEST.json"), "w") as fh:
    json.dump(m, fh, indent=1)
print("MANIFEST.json: %d checks, %d not_applicable" % (len(checks), len(na)))
