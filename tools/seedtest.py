#!/usr/bin/env python3
"""Runs checks against a seeded change: apply <dir>/patch.diff to /repo, run the given checks, undo.

usage: tools/seedtest.py <seeded dir> [--tier quick|thorough] [--checks C01,C05|all] [--seeds 1,2]
Evidence files are rewritten by these runs: re-run the checks on the clean tree before committing evidence."""
import argparse
import json
import os
import subprocess
import sys
import time

V = os.path.dirname(os.path.dirname(os.path.abspath(__file__)))
ap = argparse.ArgumentParser()
ap.add_argument("dir")
ap.add_argument("--tier", default="quick")
ap.add_argument("--checks", default="")
ap.add_argument("--seeds", default="1")
a = ap.parse_args()
meta = {}
try:
    meta = json.load(open(os.path.join(a.dir, "meta.json")))
except Exception:
    pass
checks = a.checks.split(",") if a.checks else [meta.get("property", "C01")]
if checks == ["all"]:
    checks = ["C%02d" % i for i in range(1, 21)]
patch = os.path.join(os.path.abspath(a.dir), "patch.diff")
st = subprocess.run(["git", "-C", "/repo", "status", "--porcelain"], capture_output=True, text=True).stdout
if st.strip():
    print("refusing: /repo is not clean:\n" + st)
    sys.exit(2)
r = subprocess.run(["git", "-C", "/repo", "apply", patch], capture_output=True, text=True)
if r.returncode != 0:
    print("patch does not apply:", r.stderr)
    sys.exit(2)
results = {}
try:
    for c in checks:
        for seed in a.seeds.split(","):
            t0 = time.time()
            p = subprocess.run([os.path.join(V, "bin/check"), c, "--tier", a.tier], cwd=V, capture_output=True, text=True, env=dict(os.environ, VERIF_SEED=seed))
            keys = [l.strip() for l in p.stdout.splitlines() if l.strip().startswith("key=")]
            results["%s@%s" % (c, seed)] = {"exit": p.returncode, "violations": len([l for l in p.stdout.splitlines() if l.startswith("VIOLATION")]), "keys": [k[:160] for k in keys[:4]], "wall": round(time.time() - t0, 1),
                                          "broken": [l for l in p.stdout.splitlines() if l.startswith("BROKEN")][:1]}
            print(c, "seed", seed, "->", "DETECTED" if p.returncode == 1 else ("silent" if p.returncode == 0 else "BROKEN(exit %d)" % p.returncode), results["%s@%s" % (c, seed)]["keys"][:2], flush=True)
finally:
    subprocess.run(["git", "-C", "/repo", "checkout", "--", "."], check=True)
    subprocess.run(["git", "-C", "/repo", "clean", "-fdq"], check=False)
print(json.dumps(results))
