#!/usr/bin/env python3
"""Prints the markdown table of seeded changes (from seeded/*/meta.json, confirm.json, detect.json)."""
import json, os, glob
V = os.path.dirname(os.path.dirname(os.path.abspath(__file__)))
print("| seed | breaks | change (summary) | needs | own check (quick) | key reported |")
print("|---|---|---|---|---|---|")
for d in sorted(glob.glob(os.path.join(V, "seeded", "C[0-9][0-9][a-z]"))):
    m = json.load(open(os.path.join(d, "meta.json")))
    try:
        det = json.load(open(os.path.join(d, "detect.json")))
    except Exception:
        det = {}
    row = []
    for k, v in det.items():
        st = "detected" if v["exit"] == 1 else ("silent" if v["exit"] == 0 else "broken")
        key = (v["keys"][0].split(":")[0].replace("key=", "") if v["keys"] else "")
        if v["keys"]:
            key = v["keys"][0].replace("key=", "").split(": ")[0]
        row.append((k.split("@")[0], st, key))
    own = ", ".join("%s %s" % (c, st) for c, st, _k in row) or "not run"
    key = "; ".join(k for _c, _s, k in row if k)[:90]
    print("| %s | %s | %s | %s | %s | `%s` |" % (os.path.basename(d), m.get("property"), m.get("summary", "")[:140].replace("|", "/"), m.get("needs", "")[:140].replace("|", "/"), own, key))
