#!/usr/bin/env python3
"""Confirms seeded changes in scratch worktrees: suite passes with the change, demo fails with it and passes without.
usage: tools/confirm_seeds.py <seeded root> [ids...]"""
import json, os, re, subprocess, sys, tempfile, shutil
from concurrent.futures import ThreadPoolExecutor

ROOT = sys.argv[1]
ids = sys.argv[2:] or sorted(d for d in os.listdir(ROOT) if re.match(r"^C\d\d[a-z]$", d))
ENV = dict(os.environ, GOFLAGS="-mod=mod", GOPROXY="off", GOSUMDB="off", GOTOOLCHAIN="local")
SUITE = "go build ./... && VERIF_REPO=$PWD /verif/bin/baseline"  # the pinned 534-test suite, compared with BASELINE.json


def sh(cmd, cwd, timeout=600):
    try:
        p = subprocess.run(["bash", "-c", cmd], cwd=cwd, env=ENV, capture_output=True, text=True, timeout=timeout)
        return p.returncode, (p.stdout + p.stderr)[-1500:]
    except subprocess.TimeoutExpired:
        return 124, "timeout"


def one(sid):
    d = os.path.join(ROOT, sid)
    meta = json.load(open(os.path.join(d, "meta.json")))
    w = tempfile.mkdtemp(prefix="wtc-%s-" % sid, dir="/tmp")
    os.rmdir(w)
    subprocess.run(["git", "-C", "/repo", "worktree", "add", "-q", "--detach", w, "HEAD"], check=True)
    res = {"id": sid}
    try:
        demo = re.sub(r"/tmp/wt\d?/C\d\d", w, meta["demo"])
        demo = demo.split("   #")[0].split("   (")[0]
        patch = os.path.join(d, "patch.diff")
        rc, out = sh("git apply %s" % patch, w)
        res["applies"] = rc == 0
        if rc == 0:
            rc1, out1 = sh(SUITE, w, timeout=1800)  # before any demonstration file is copied in
            res["suite_with_change"] = "pass" if rc1 == 0 else "FAIL: " + out1[-400:]
            rc2, out2 = sh(demo, w)
            res["demo_with_change"] = "fail" if rc2 != 0 else "PASSES"
            res["demo_tail"] = out2[-300:]
            sh("git apply -R %s" % patch, w)
            rc0, out0 = sh(demo, w)
            res["demo_without_change"] = "pass" if rc0 == 0 else "FAIL(%d): %s" % (rc0, out0[-300:])
        else:
            res["apply_err"] = out
    finally:
        subprocess.run(["git", "-C", "/repo", "worktree", "remove", "--force", w])
    json.dump(res, open(os.path.join(d, "confirm.json"), "w"), indent=1)
    return res


with ThreadPoolExecutor(int(os.environ.get('CONFIRM_PAR', '6'))) as ex:
    for r in ex.map(one, ids):
        ok = r.get("applies") and r.get("suite_with_change") == "pass" and r.get("demo_with_change") == "fail" and r.get("demo_without_change") == "pass"
        print(r["id"], "CONFIRMED" if ok else "PROBLEM", {k: v for k, v in r.items() if k not in ("id", "demo_tail")} if not ok else "")
