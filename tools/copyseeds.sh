#!/bin/bash
# usage: tools/copyseeds.sh <src dir> <id>...  - copies confirmed seeded changes into seeded/<id>/ and checks that each patch applies to /repo
cd "$(dirname "$0")/.." || exit 1
src=$1; shift
for id in "$@"; do
  mkdir -p seeded/$id
  cp $src/$id/patch.diff $src/$id/meta.json seeded/$id/
  [ -f $src/$id/confirm.json ] && cp $src/$id/confirm.json seeded/$id/
  for f in $src/$id/*_test.go; do [ -f "$f" ] && cp $f seeded/$id/$(basename $f).txt; done
  echo -n "$id: "; git -C /repo apply --check "$PWD/seeded/$id/patch.diff" 2>&1 | head -2; echo
done
