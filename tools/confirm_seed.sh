#!/bin/sh
# Confirms a seeded change in a scratch worktree: existing tests pass with it; reports. usage: tools/confirm_seed.sh <seeded dir>
export GOFLAGS=-mod=mod GOPROXY=off GOSUMDB=off GOTOOLCHAIN=local
D=$(cd "$1" && pwd)
W=$(mktemp -d /tmp/wtc-XXXXXX)
git -C /repo worktree add -q --detach "$W" HEAD || exit 2
cd "$W" || exit 2
if git apply "$D/patch.diff"; then
  echo "patch applies"
  if go build ./... ; then echo "builds"; else echo "BUILD FAILS"; fi
  go test -vet=off -count=1 ./workflow/... ./internal/... ./config/... ./loadfile/... 2>&1 | grep -v "^ok\|no test files" | tail -5
  echo "tests exit: $?"
else
  echo "PATCH DOES NOT APPLY"
fi
cd /; git -C /repo worktree remove --force "$W"
