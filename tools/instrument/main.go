// Command instrument splices verifsched.Point("<tag>:<func>:<kind>#<n>") before synchronisation
// statements of one Go source file, preserving line numbers (DESIGN.md §4.1).
// usage: instrument <src.go> <out.go> <tag> [points-file]
package main

import (
	"fmt"
	"go/ast"
	"go/parser"
	"go/token"
	"os"
	"sort"
	"strings"
)

type ins struct {
	off  int
	text string
}

func main() {
	src, out, tag := os.Args[1], os.Args[2], os.Args[3]
	data, err := os.ReadFile(src)
	if err != nil {
		panic(err)
	}
	fset := token.NewFileSet()
	f, err := parser.ParseFile(fset, src, data, parser.ParseComments)
	if err != nil {
		panic(err)
	}
	var inserts []ins
	counter := map[string]int{}
	point := func(fn, kind string, pos token.Pos) {
		key := fn + ":" + kind
		counter[key]++
		id := fmt.Sprintf("%s:%s:%s#%d", tag, fn, kind, counter[key])
		inserts = append(inserts, ins{fset.Position(pos).Offset, fmt.Sprintf("verifsched.Point(%q); ", id)})
	}
	// pointAfter places a point right behind a statement (same line).
	pointAfter := func(fn, kind string, end token.Pos) {
		key := fn + ":" + kind
		counter[key]++
		id := fmt.Sprintf("%s:%s:%s#%d", tag, fn, kind, counter[key])
		inserts = append(inserts, ins{fset.Position(end).Offset, fmt.Sprintf("; verifsched.Point(%q)", id)})
	}
	var walkBody func(fn string, list []ast.Stmt)
	var walkStmt func(fn string, s ast.Stmt)
	kindOf := func(s ast.Stmt) string {
		switch st := s.(type) {
		case *ast.SendStmt:
			return "send"
		case *ast.SelectStmt:
			return "select"
		case *ast.GoStmt:
			return "go"
		case *ast.LabeledStmt:
			return ""
		case *ast.ExprStmt:
			if call, ok := st.X.(*ast.CallExpr); ok {
				if sel, ok := call.Fun.(*ast.SelectorExpr); ok {
					switch sel.Sel.Name {
					case "Lock", "Unlock", "RLock", "RUnlock":
						return strings.ToLower(sel.Sel.Name)
					case "Wait", "Done", "Add":
						return "wg" + strings.ToLower(sel.Sel.Name)
					case "OnStageChange", "OnStepComplete", "OnStepStageFailure":
						return "handler"
					case "ProvideStageInput", "ForceClose", "Close":
						return "api" + strings.ToLower(sel.Sel.Name)
					case "cancel", "cancelFunction":
						return "cancel"
					}
				}
				if id, ok := call.Fun.(*ast.Ident); ok && (id.Name == "cancel" || id.Name == "close") {
					return id.Name
				}
			}
			if u, ok := st.X.(*ast.UnaryExpr); ok && u.Op == token.ARROW {
				return "recv"
			}
		case *ast.AssignStmt:
			for _, r := range st.Rhs {
				if u, ok := r.(*ast.UnaryExpr); ok && u.Op == token.ARROW {
					return "recv"
				}
			}
			// a store into a map or slice element (e.g. placing a step's output into the data model)
			if st.Tok == token.ASSIGN {
				for _, l := range st.Lhs {
					if _, ok := l.(*ast.IndexExpr); ok {
						return "store"
					}
				}
			}
		case *ast.IfStmt:
			// if err := node.ResolveNode(...); err != nil { ... }: a mutation of the dependency graph
			if as, ok := st.Init.(*ast.AssignStmt); ok && len(as.Rhs) == 1 {
				if call, ok := as.Rhs[0].(*ast.CallExpr); ok {
					if sel, ok := call.Fun.(*ast.SelectorExpr); ok && sel.Sel.Name == "ResolveNode" {
						return "resolve"
					}
				}
			}
		}
		return ""
	}
	walkStmt = func(fn string, s ast.Stmt) {
		switch st := s.(type) {
		case *ast.BlockStmt:
			walkBody(fn, st.List)
		case *ast.IfStmt:
			walkBody(fn, st.Body.List)
			if st.Else != nil {
				walkStmt(fn, st.Else)
			}
		case *ast.ForStmt:
			walkBody(fn, st.Body.List)
		case *ast.RangeStmt:
			walkBody(fn, st.Body.List)
		case *ast.SwitchStmt:
			for _, c := range st.Body.List {
				walkBody(fn, c.(*ast.CaseClause).Body)
			}
		case *ast.TypeSwitchStmt:
			for _, c := range st.Body.List {
				walkBody(fn, c.(*ast.CaseClause).Body)
			}
		case *ast.SelectStmt:
			for _, c := range st.Body.List {
				walkBody(fn, c.(*ast.CommClause).Body)
			}
		case *ast.LabeledStmt:
			walkStmt(fn, st.Stmt)
		}
		// function literals anywhere inside the statement (go func(){...}(), defer func(){...}(), callbacks)
		ast.Inspect(s, func(n ast.Node) bool {
			if fl, ok := n.(*ast.FuncLit); ok {
				name := fmt.Sprintf("%s.func@%d", fn, len(inserts))
				_ = name
				if len(fl.Body.List) > 0 {
					if _, isGo := s.(*ast.GoStmt); isGo {
						point(fn+".go", "entry", fl.Body.List[0].Pos())
					}
				}
				walkBody(fn+".lit", fl.Body.List)
				return false
			}
			// do not descend into nested statements here: handled by walkStmt
			switch n.(type) {
			case *ast.BlockStmt:
				return n == ast.Node(s)
			}
			return true
		})
	}
	walkBody = func(fn string, list []ast.Stmt) {
		for _, s := range list {
			if k := kindOf(s); k != "" {
				point(fn, k, s.Pos())
				if k == "cancel" {
					// also behind the call: what the goroutine that cancelled a context does next happens while the
					// goroutines woken by the cancellation are already running
					pointAfter(fn, "cancelled", s.End())
				}
			}
			walkStmt(fn, s)
		}
	}
	for _, d := range f.Decls {
		fd, ok := d.(*ast.FuncDecl)
		if !ok || fd.Body == nil {
			continue
		}
		name := fd.Name.Name
		if fd.Recv != nil && len(fd.Recv.List) > 0 {
			t := fd.Recv.List[0].Type
			if st, ok := t.(*ast.StarExpr); ok {
				t = st.X
			}
			if id, ok := t.(*ast.Ident); ok {
				name = id.Name + "." + name
			}
		}
		walkBody(name, fd.Body.List)
	}
	// import: right after "import (" on the same line
	var impOff = -1
	for _, d := range f.Decls {
		if gd, ok := d.(*ast.GenDecl); ok && gd.Tok == token.IMPORT && gd.Lparen.IsValid() {
			impOff = fset.Position(gd.Lparen).Offset + 1
			break
		}
	}
	if impOff < 0 {
		panic("no import block")
	}
	inserts = append(inserts, ins{impOff, ` verifsched "go.flow.arcalot.io/engine/internal/verif/sched";`})
	sort.SliceStable(inserts, func(i, j int) bool { return inserts[i].off < inserts[j].off })
	var sb strings.Builder
	last := 0
	for _, in := range inserts {
		sb.Write(data[last:in.off])
		sb.WriteString(in.text)
		last = in.off
	}
	sb.Write(data[last:])
	if err := os.WriteFile(out, []byte(sb.String()), 0o644); err != nil {
		panic(err)
	}
	if len(os.Args) > 4 {
		var pts strings.Builder
		for key, n := range counter {
			for i := 1; i <= n; i++ {
				fmt.Fprintf(&pts, "%s:%s#%d\n", tag, key, i)
			}
		}
		f, err := os.OpenFile(os.Args[4], os.O_APPEND|os.O_CREATE|os.O_WRONLY, 0o644)
		if err != nil {
			panic(err)
		}
		_, _ = f.WriteString(pts.String())
		_ = f.Close()
	}
	fmt.Fprintf(os.Stderr, "%s: %d points\n", tag, len(inserts)-1)
}
