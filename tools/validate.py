#!/usr/bin/env python3-vt
import json, sys, glob, jsonschema
ok = True
m = json.load(open('/verif/MANIFEST.json'))
jsonschema.validate(m, json.load(open('/root/.vp/MANIFEST.schema.json')))
es = json.load(open('/root/.vp/EVIDENCE.schema.json'))
for c in m['checks']:
    f = c['evidence_file']
    try:
        jsonschema.validate(json.load(open(f)), es)
    except Exception as e:
        ok = False
        print('INVALID', f, str(e)[:300])
print('manifest valid; evidence', 'ok' if ok else 'PROBLEMS')
