#!/bin/sh
# usage: tools/sweep.sh "<seeds>" [tier]  - runs every check at each seed, prints one line per run
cd "$(dirname "$0")/.." || exit 1
TIER=${2:-quick}
for s in $1; do
  for i in 01 02 03 04 05 06 07 08 09 10 11 12 13 14 15 16 17 18 19 20; do
    out=$(VERIF_SEED=$s bin/check C$i --tier $TIER 2>&1)
    rc=$?
    echo "seed=$s C$i exit=$rc $(echo "$out" | grep '^summary' | cut -c1-200)"
    if [ $rc -ne 0 ]; then echo "$out" | grep -v KNOWN | grep -A1 "VIOLATION\|BROKEN" | cut -c1-400 | head -12; fi
  done
done
