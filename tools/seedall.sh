#!/bin/bash
# Runs each seeded change against the check of its own property (quick tier) and stores the outcome next to it.
cd "$(dirname "$0")/.." || exit 1
for d in ${@:-seeded/C[0-9][0-9][a-z]}; do
  out=$(timeout 1800 tools/seedtest.py "$d" 2>&1)
  echo "$out" | grep -v "^{" | cut -c1-240
  echo "$out" | grep "^{" | tail -1 > "$d/detect.json"
done
