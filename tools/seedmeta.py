#!/usr/bin/env python3
"""Writes what was run for each seeded change into its meta.json (from confirm.json and detect.json next to it).
usage: tools/seedmeta.py [seeded/<id> ...]"""
import glob, json, os, sys
V = os.path.dirname(os.path.dirname(os.path.abspath(__file__)))
dirs = sys.argv[1:] or sorted(glob.glob(os.path.join(V, "seeded", "C[0-9][0-9][a-z]")))
for d in dirs:
    mp = os.path.join(d, "meta.json")
    m = json.load(open(mp))
    sid = os.path.basename(d.rstrip("/"))
    try:
        c = json.load(open(os.path.join(d, "confirm.json")))
        m["confirmed_by_me"] = {"suite_with_change": c.get("suite_with_change"), "demo_with_change": c.get("demo_with_change"), "demo_without_change": c.get("demo_without_change"),
                                "how": m.get("confirmed_by_me", {}).get("how") or "tools/confirm_seeds.py in a scratch worktree of /repo HEAD (apply patch; pinned suite via bin/baseline with VERIF_REPO=<worktree>; demo command from this file; revert; demo again)"}
    except Exception:
        pass
    try:
        det = json.load(open(os.path.join(d, "detect.json")))
        checks = sorted({k.split("@")[0] for k in det})
        m["checked_with"] = {"command": "tools/seedtest.py seeded/%s --checks %s (git -C /repo apply patch.diff; bin/check <ID> --tier quick; git -C /repo checkout -- .)" % (sid, ",".join(checks)), "result": det}
    except Exception:
        pass
    demos = [f for f in os.listdir(d) if f.endswith(".go.txt")]
    if demos:
        m["demonstration_file"] = "%s (rename to *_test.go in the package directory named in its header)" % ", ".join(sorted(demos))
    json.dump(m, open(mp, "w"), indent=1)
    print(sid, "ok")
