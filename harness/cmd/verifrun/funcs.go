//go:build verif

package main

import (
	"path/filepath"
	"os"
	"sync"
	"encoding/json"
	"fmt"
	"math"
	"math/rand"
	"reflect"
	"sort"
	"strings"
	"unicode"

	"go.flow.arcalot.io/engine/internal/builtinfunctions"
	"go.flow.arcalot.io/expressions"
	"go.flow.arcalot.io/pluginsdk/schema"
)

type fnViolation struct {
	Key  string `json:"key"`
	What string `json:"what"`
	Args string `json:"args"`
}

var floatBoundary = []float64{0, math.Copysign(0, -1), 1, -1, 0.5, -0.5, 1.5, -1.5, 2.5, -2.5, 0.9999999999999999, -0.9999999999999999, 5.5, -1.9,
	math.NaN(), math.Inf(1), math.Inf(-1), math.MaxFloat64, -math.MaxFloat64, math.SmallestNonzeroFloat64, -math.SmallestNonzeroFloat64,
	9223372036854775807, 9223372036854775808, -9223372036854775808, 9223372036854774784, -9223372036854774784, 9223372036854777856, -9223372036854777856,
	1e30, -1e30, 1e19, -1e19, 4503599627370496.5, 9007199254740993, 123456.789, 1e-7, 1e21, 1e-320, 0.1, 100, 12300, 0.000123,
	0.49999999999999994, -0.49999999999999994, 4503599627370497, -4503599627370497, 4503599627370495.5, 2251799813685248.5, 1.4999999999999998, 3.5, -3.5, 1e15 + 0.5}
var intBoundary = []int64{0, 1, -1, 2, 7, -7, 10, 100, math.MaxInt64, math.MinInt64, math.MaxInt64 - 1, math.MinInt64 + 1, 1 << 53, (1 << 53) + 1, -(1 << 53) - 1, 1 << 31, -(1 << 31), 255, 65536}
var stringBoundary = []string{"", "a", "ABC", "aBc Def", "ßÄöÜ", "İstanbul", "ǅ", "日本語", "\xff\xfe", "a\x00b", " ", "a,b,c", ",a,,b,", "abcabc", "true", "false", "1", "0", "t", "F", "TRUE", "123", "-45", "007",
	"-0", "99999999999999999999", "-9223372036854775808", "9223372036854775807", "1.5", "1e3", "NaN", "Inf", "-Inf", "+Inf", "0x1p-2", "1_000", " 12 ", "12abc", strings.Repeat("x", 5000), "é", "é", "σς"}

// sameValue is deep equality in which NaN equals NaN (and signed zeros differ).
func sameValue(a, b any) bool {
	fa, oka := a.(float64)
	fb, okb := b.(float64)
	if oka && okb {
		return math.Float64bits(fa) == math.Float64bits(fb) || (math.IsNaN(fa) && math.IsNaN(fb))
	}
	if la, ok := a.([]any); ok {
		lb, ok2 := b.([]any)
		if !ok2 || len(la) != len(lb) {
			return false
		}
		for i := range la {
			if !sameValue(la[i], lb[i]) {
				return false
			}
		}
		return true
	}
	if ma, ok := a.(map[string]any); ok {
		mb, ok2 := b.(map[string]any)
		if !ok2 || len(ma) != len(mb) {
			return false
		}
		for k, v := range ma {
			w, present := mb[k]
			if !present || !sameValue(v, w) {
				return false
			}
		}
		return true
	}
	return reflect.DeepEqual(a, b)
}

func argString(args []any) string {
	b, _ := json.Marshal(toJSON(args))
	s := string(b)
	if len(s) > 300 {
		s = s[:300] + "..."
	}
	return s
}

func floatClass(f float64) string {
	switch {
	case math.IsNaN(f):
		return "NaN"
	case math.IsInf(f, 0):
		return "Inf"
	case f == 0:
		return "zero"
	case math.Abs(f) >= 9.223372036854775e18:
		return "beyond-int64"
	case f == math.Trunc(f):
		return "integral"
	case f < 0:
		return "negative-fraction"
	}
	return "fraction"
}

func argClass(args []any) string {
	var parts []string
	for _, a := range args {
		switch v := a.(type) {
		case float64:
			parts = append(parts, floatClass(v))
		case int64:
			switch {
			case v == math.MaxInt64 || v == math.MinInt64:
				parts = append(parts, "int-extreme")
			case v < 0:
				parts = append(parts, "int-negative")
			default:
				parts = append(parts, "int")
			}
		case string:
			switch {
			case v == "":
				parts = append(parts, "empty-string")
			case len(v) == 1 && strings.Contains("beEfgGxX", v):
				parts = append(parts, "fmt-"+v)
			case !isASCII(v):
				parts = append(parts, "non-ascii")
			default:
				parts = append(parts, "string")
			}
		case bool:
			parts = append(parts, "bool")
		default:
			parts = append(parts, fmt.Sprintf("%T", a))
		}
	}
	return strings.Join(parts, ",")
}

func isASCII(s string) bool {
	for i := 0; i < len(s); i++ {
		if s[i] >= 0x80 {
			return false
		}
	}
	return true
}

func mySplit(s, sep string) []string {
	if sep == "" {
		var out []string
		for len(s) > 0 {
			_, size := decodeRune(s)
			out = append(out, s[:size])
			s = s[size:]
		}
		if out == nil {
			out = []string{}
		}
		return out
	}
	var out []string
	for {
		i := strings.Index(s, sep)
		if i < 0 {
			break
		}
		out = append(out, s[:i])
		s = s[i+len(sep):]
	}
	return append(out, s)
}

func decodeRune(s string) (rune, int) {
	for i, r := range s {
		_ = i
		n := len(string(r))
		if r == unicode.ReplacementChar && (len(s) < 3 || s[:3] != "�") {
			return r, 1
		}
		return r, n
	}
	return 0, 0
}

// genArgs produces argument lists for a function from its declared parameter schemas (boundary classes first, then random).
func genArgs(name string, params []schema.Type, rng *rand.Rand, n int) [][]any {
	perParam := make([][]any, len(params))
	for i, p := range params {
		var vals []any
		switch p.TypeID() {
		case schema.TypeIDInt:
			for _, v := range intBoundary {
				vals = append(vals, v)
			}
			if name == "floatToFormattedString" {
				vals = nil
				for _, v := range []int64{-1, 0, 1, 2, 6, 15, 17, 20, 100, 400, 1074, 1075, 1100, 1999, 2000, 2001, 5000} {
					vals = append(vals, v)
				}
			}
			for k := 0; k < 12; k++ {
				vals = append(vals, rng.Int63()-rng.Int63())
			}
		case schema.TypeIDFloat:
			for _, v := range floatBoundary {
				vals = append(vals, v)
			}
			for k := 0; k < 12; k++ {
				vals = append(vals, math.Float64frombits(rng.Uint64()))
			}
		case schema.TypeIDBool:
			vals = []any{true, false}
		case schema.TypeIDString:
			for _, v := range stringBoundary {
				vals = append(vals, v)
			}
			if name == "floatToFormattedString" {
				vals = nil
				// every one-character text; the declared parameter type decides which of them are format specifiers
				for _, v := range "beEfgGxXBFaAcdDhHiIkKnNoOpPqQsStTuUvVwWyYzZ%01 " {
					vals = append(vals, string(v))
				}
			}
			if name == "stringToInt" {
				for _, v := range intBoundary {
					vals = append(vals, fmt.Sprint(v))
				}
			}
		case schema.TypeIDList:
			vals = []any{[]any{}, []any{int64(1), int64(2), int64(3)}, []any{"a", "b"}, []any{map[string]any{"k": "v"}, map[string]any{"k": "w"}}, []any{[]any{int64(1)}, []any{}}, []any{1.5, math.NaN()}}
		default:
			vals = []any{int64(5), "const", 1.5, true, map[string]any{"a": int64(1), "b": []any{"x"}}, []any{int64(1), "two"}, nil}
		}
		// keep only values the declared parameter schema accepts
		var ok []any
		for _, v := range vals {
			if p.Validate(v) == nil {
				ok = append(ok, v)
			}
		}
		perParam[i] = ok
	}
	var out [][]any
	if len(params) == 1 {
		for _, v := range perParam[0] {
			out = append(out, []any{v})
		}
		return out
	}
	// all boundary combinations if small, else random combinations
	total := 1
	for _, v := range perParam {
		total *= len(v)
	}
	if total > 0 && total <= n {
		idx := make([]int, len(params))
		for {
			a := make([]any, len(params))
			for i := range params {
				a[i] = perParam[i][idx[i]]
			}
			out = append(out, a)
			k := len(params) - 1
			for k >= 0 {
				idx[k]++
				if idx[k] < len(perParam[k]) {
					break
				}
				idx[k] = 0
				k--
			}
			if k < 0 {
				break
			}
		}
		return out
	}
	for j := 0; j < n && total > 0; j++ {
		a := make([]any, len(params))
		for i := range params {
			a[i] = perParam[i][rng.Intn(len(perParam[i]))]
		}
		out = append(out, a)
	}
	return out
}

func safeCall(f schema.CallableFunction, args []any) (res any, err error, panicked any) {
	defer func() {
		if r := recover(); r != nil {
			panicked = r
		}
	}()
	res, err = f.Call(args)
	return
}

func typeOfValue(v any) schema.Type {
	switch x := v.(type) {
	case int64:
		return schema.NewIntSchema(nil, nil, nil)
	case float64:
		return schema.NewFloatSchema(nil, nil, nil)
	case string:
		return schema.NewStringSchema(nil, nil, nil)
	case bool:
		return schema.NewBoolSchema()
	case map[string]any:
		// string-keyed map of the type of its values (maps with values of different types are `any`)
		var vt schema.Type
		for _, e := range x {
			t := typeOfValue(e)
			if vt != nil && vt.TypeID() != t.TypeID() {
				return schema.NewAnySchema()
			}
			vt = t
		}
		if vt == nil {
			return schema.NewAnySchema()
		}
		return schema.NewMapSchema(schema.NewStringSchema(nil, nil, nil), vt, nil, nil)
	case []any:
		if len(x) == 0 {
			return schema.NewListSchema(schema.NewAnySchema(), nil, nil)
		}
		for _, e := range x[1:] {
			if reflect.TypeOf(e) != reflect.TypeOf(x[0]) {
				return schema.NewListSchema(schema.NewAnySchema(), nil, nil)
			}
		}
		return schema.NewListSchema(typeOfValue(x[0]), nil, nil)
	}
	return schema.NewAnySchema()
}

func init() {
	modes["funcs"] = func(c *Case, res *Result) {
		seed := int64(1)
		n := 400
		if v, ok := c.Extra["seed"]; ok {
			_ = json.Unmarshal(v, &seed)
		}
		if v, ok := c.Extra["n"]; ok {
			_ = json.Unmarshal(v, &n)
		}
		rng := rand.New(rand.NewSource(seed))
		funcs := builtinfunctions.GetFunctions()
		names := make([]string, 0, len(funcs))
		for k := range funcs {
			names = append(names, k)
		}
		sort.Strings(names)
		var vs []fnViolation
		calls, errsReturned := 0, 0
		perFn := map[string]int{}
		classes := map[string]bool{}
		var samples []map[string]any
		add := func(fn, law string, args []any, what string) {
			vs = append(vs, fnViolation{Key: fmt.Sprintf("fn@%s:%s:%s", fn, argClass(args), law), What: what, Args: argString(args)})
		}
		call := func(fn string, args []any) (any, error, bool) {
			f := funcs[fn]
			r, err, p := safeCall(f, args)
			calls++
			perFn[fn]++
			classes[fn+":"+argClass(args)] = true
			if p != nil {
				add(fn, "panic", args, fmt.Sprintf("panicked: %v", p))
				return nil, nil, false
			}
			if err != nil {
				errsReturned++
			}
			r2, err2, p2 := safeCall(f, args)
			if p2 != nil || (err == nil) != (err2 == nil) || (err == nil && !sameValue(r, r2)) {
				add(fn, "nondeterministic", args, fmt.Sprintf("two calls disagree: %v/%v vs %v/%v", r, err, r2, err2))
			}
			if err == nil {
				types := make([]schema.Type, len(args))
				for i, a := range args {
					if f.Parameters()[i].TypeID() == schema.TypeIDAny || f.Parameters()[i].TypeID() == schema.TypeIDList {
						types[i] = typeOfValue(a)
					} else {
						types[i] = f.Parameters()[i]
					}
				}
				ot, _, oerr := f.Output(types)
				if oerr != nil {
					add(fn, "output-type-error", args, "Output() failed: "+oerr.Error())
				} else if ot != nil {
					if verr := ot.Validate(r); verr != nil {
						if _, uerr := ot.Unserialize(r); uerr != nil {
							add(fn, "result-not-of-declared-type", args, fmt.Sprintf("result %v (%T) is rejected by the declared result type: %v", r, r, uerr))
						}
					}
				}
			}
			if len(samples) < 6 && calls%97 == 1 {
				samples = append(samples, map[string]any{"fn": fn, "args": argString(args), "result": fmt.Sprintf("%v", r), "error": fmt.Sprint(err)})
			}
			return r, err, true
		}
		// readFile on real files of every small size (also starting with a byte order mark): the text of the file, as it is
		if dir, derr := os.MkdirTemp("", "verif-files-"); derr == nil {
			contents := []string{"", "a", "a\n", "abc", "abcd", "\xef\xbb\xbf", "\xef\xbb\xbfx", "\xef\xbb", "\xff", "line one\nline two\n", strings.Repeat("x", 5000)}
			for i, content := range contents {
				path := filepath.Join(dir, fmt.Sprintf("f%d.txt", i))
				if os.WriteFile(path, []byte(content), 0o600) != nil {
					continue
				}
				r, err, ok := call("readFile", []any{path})
				if ok && err == nil {
					if got, isStr := r.(string); !isStr || got != content {
						add("readFile", "returns-the-content", []any{fmt.Sprintf("<file of %d bytes>", len(content))}, fmt.Sprintf("file holds %q, readFile returned %q", content, r))
					}
				} else if ok && err != nil {
					add("readFile", "reads-existing-file", []any{fmt.Sprintf("<file of %d bytes>", len(content))}, "readFile failed on an existing readable file: "+err.Error())
				}
			}
			_, _, _ = call("readFile", []any{dir})
			_ = os.RemoveAll(dir)
		}
		for _, fn := range names {
			if fn == "readFile" || fn == "getEnvVar" {
				for _, a := range genArgs(fn, funcs[fn].Parameters(), rng, 40) {
					call(fn, a)
				}
				continue
			}
			for _, a := range genArgs(fn, funcs[fn].Parameters(), rng, n) {
				call(fn, a)
			}
		}
		// ---- laws
		sortedF := append([]float64(nil), floatBoundary...)
		for k := 0; k < 200; k++ {
			sortedF = append(sortedF, math.Float64frombits(rng.Uint64()), (rng.Float64()-0.5)*2e19, (rng.Float64()-0.5)*100)
		}
		var finite []float64
		for _, f := range sortedF {
			if !math.IsNaN(f) {
				finite = append(finite, f)
			}
		}
		sort.Float64s(finite)
		prev := int64(math.MinInt64)
		for _, f := range finite {
			r, err, ok := call("floatToInt", []any{f})
			if !ok {
				continue
			}
			if err != nil {
				add("floatToInt", "total", []any{f}, "error for a non-NaN value: "+err.Error())
				continue
			}
			got := r.(int64)
			var want int64
			switch {
			case f >= 9223372036854775808.0:
				want = math.MaxInt64
			case f <= -9223372036854775808.0:
				want = math.MinInt64
			default:
				want = int64(math.Trunc(f))
			}
			if got != want {
				add("floatToInt", "truncates-and-saturates", []any{f}, fmt.Sprintf("floatToInt(%v) = %d, expected %d", f, got, want))
			}
			if got < prev {
				add("floatToInt", "monotonic", []any{f}, fmt.Sprintf("floatToInt(%v) = %d is smaller than the result %d for a smaller argument", f, got, prev))
			}
			prev = got
		}
		if _, err, ok := call("floatToInt", []any{math.NaN()}); ok && err == nil {
			add("floatToInt", "nan-is-error", []any{math.NaN()}, "no error for NaN")
		}
		ints := append([]int64(nil), intBoundary...)
		for k := 0; k < 200; k++ {
			ints = append(ints, rng.Int63()-rng.Int63())
		}
		for _, i := range ints {
			s, err, ok := call("intToString", []any{i})
			if !ok || err != nil {
				continue
			}
			if back, err2, ok2 := call("stringToInt", []any{s}); ok2 && (err2 != nil || back.(int64) != i) {
				add("stringToInt", "roundtrip-intToString", []any{i}, fmt.Sprintf("stringToInt(intToString(%d)) = %v, %v", i, back, err2))
			}
			if fl, err3, ok3 := call("intToFloat", []any{i}); ok3 && err3 == nil && i > -(1<<53) && i < (1<<53) && int64(fl.(float64)) != i {
				add("intToFloat", "exact-below-2^53", []any{i}, fmt.Sprintf("intToFloat(%d) = %v", i, fl))
			}
		}
		for _, f := range sortedF {
			s, err, ok := call("floatToString", []any{f})
			if !ok || err != nil {
				continue
			}
			back, err2, ok2 := call("stringToFloat", []any{s})
			if ok2 && (err2 != nil || !sameValue(back, f)) {
				add("stringToFloat", "roundtrip-floatToString", []any{f}, fmt.Sprintf("stringToFloat(floatToString(%v)=%q) = %v, %v", f, s, back, err2))
			}
		}
		for _, f := range sortedF {
			if math.IsNaN(f) || math.IsInf(f, 0) {
				continue
			}
			t := math.Trunc(f)
			frac := math.Abs(f - t) // exact for doubles
			wantRound := t
			if frac >= 0.5 {
				wantRound = t + math.Copysign(1, f)
			}
			wantFloor, wantCeil := t, t
			if f < t {
				wantFloor = t - 1
			}
			if f > t {
				wantCeil = t + 1
			}
			for fn, want := range map[string]float64{"round": wantRound, "floor": wantFloor, "ceil": wantCeil, "abs": math.Abs(f)} {
				r, err, ok := call(fn, []any{f})
				if !ok || err != nil {
					continue
				}
				if got, isF := r.(float64); !isF || got != want {
					add(fn, "matches-definition", []any{f}, fmt.Sprintf("%s(%v) = %v, expected %v", fn, f, r, want))
				} else if f == 0 && fn != "abs" && math.Signbit(got) != math.Signbit(f) {
					// documented special case of ceil, floor and round: f(±0) = ±0
					add(fn, "signed-zero", []any{f}, fmt.Sprintf("%s(%v) = %v: the documented special case %s(±0) = ±0 does not hold (sign of zero lost)", fn, f, got, fn))
				}
			}
		}
		for _, b := range []bool{true, false} {
			s, _, ok := call("boolToString", []any{b})
			if ok {
				if back, err2, ok2 := call("stringToBool", []any{s}); ok2 && (err2 != nil || back.(bool) != b) {
					add("stringToBool", "roundtrip-boolToString", []any{b}, fmt.Sprintf("stringToBool(boolToString(%v)) = %v, %v", b, back, err2))
				}
			}
		}
		// separators and texts made of white space: a blank is a separator like any other
		blankTexts := []string{"a b", "a  b", " a b ", "", " ", "   ", "a\tb c", "a \n b", "\t", "a b\t", "word", " x", "x ", "a　b"}
		for _, s := range append(append([]string{}, stringBoundary...), blankTexts...) {
			for _, sep := range []string{",", "", "ab", "c", "\xff", "語", ",,", " ", "  ", "\t", "\n", " \t", "-", ".", "|", "\\", "a"} {
				r, err, ok := call("splitString", []any{s, sep})
				if ok && err == nil {
					want := mySplit(s, sep)
					got, isList := r.([]string)
					if !isList || !reflect.DeepEqual(got, want) {
						add("splitString", "matches-definition", []any{s, sep}, fmt.Sprintf("got %q, expected %q", r, want))
					}
				}
			}
			for _, fn := range []string{"toLower", "toUpper"} {
				r, err, ok := call(fn, []any{s})
				if !ok || err != nil {
					continue
				}
				r2, _, _ := call(fn, []any{r})
				if !sameValue(r, r2) {
					add(fn, "idempotent", []any{s}, fmt.Sprintf("%s(%s(x)) = %q differs from %s(x) = %q", fn, fn, r2, fn, r))
				}
				var sb strings.Builder
				for _, ru := range s {
					if fn == "toLower" {
						sb.WriteRune(unicode.ToLower(ru))
					} else {
						sb.WriteRune(unicode.ToUpper(ru))
					}
				}
				if r.(string) != sb.String() {
					add(fn, "rune-wise", []any{s}, fmt.Sprintf("%s(%q) = %q, rune-wise mapping gives %q", fn, s, r, sb.String()))
				}
			}
		}
		for _, items := range [][]any{{}, {int64(1), int64(2), int64(3)}, {"a", "b"}, {map[string]any{"k": "v"}}, {[]any{int64(1)}, []any{}}} {
			for _, cst := range []any{int64(5), "c", map[string]any{"a": int64(1)}, map[string]any{"a": "one"}, map[string]any{"a": int64(2)}, []any{"x"}, []any{int64(7)}, nil} {
				r, err, ok := call("bindConstants", []any{items, cst})
				if !ok || err != nil {
					continue
				}
				l, isList := r.([]any)
				if !isList || len(l) != len(items) {
					add("bindConstants", "length", []any{items, cst}, fmt.Sprintf("result %v", r))
					continue
				}
				for i := range l {
					m, _ := l[i].(map[string]any)
					if m == nil || !sameValue(m["item"], items[i]) || !sameValue(m["constant"], cst) {
						add("bindConstants", "pairs-in-order", []any{items, cst}, fmt.Sprintf("element %d is %v", i, l[i]))
					}
				}
			}
		}
		// bindConstants over list types that carry size bounds: a list that satisfies the bounds of its own type gives a
		// result that satisfies the derived result type
		{
			f := funcs["bindConstants"]
			ptr := func(v int64) *int64 { return &v }
			bounds := []struct{ min, max *int64 }{{nil, nil}, {ptr(1), nil}, {nil, ptr(5)}, {ptr(2), ptr(4)}, {ptr(0), ptr(1)}, {ptr(3), ptr(3)}}
			for _, b := range bounds {
				for n := 0; n <= 6; n++ {
					if (b.min != nil && int64(n) < *b.min) || (b.max != nil && int64(n) > *b.max) {
						continue
					}
					items := make([]any, n)
					for i := range items {
						items[i] = fmt.Sprintf("s%d", i)
					}
					listType := schema.NewListSchema(schema.NewStringSchema(nil, nil, nil), b.min, b.max)
					r, err, p := safeCall(f, []any{items, "c"})
					calls++
					if p != nil || err != nil {
						continue
					}
					ot, _, oerr := f.Output([]schema.Type{listType, schema.NewStringSchema(nil, nil, nil)})
					if oerr != nil {
						add("bindConstants", "output-type-error-bounded-list", []any{items, "c"}, "Output() failed for a bounded list type: "+oerr.Error())
						continue
					}
					if _, uerr := ot.Unserialize(r); uerr != nil {
						add("bindConstants", "result-not-of-declared-type-bounded-list", []any{items, "c"},
							fmt.Sprintf("list of %d items with bounds (%v, %v): result is rejected by the derived result type: %v", n, deref(b.min), deref(b.max), uerr))
					}
				}
			}
		}
		// ---- the same functions through the expression library (the path workflows use)
		exprChecked := 0
		for _, fn := range names {
			if fn == "readFile" || fn == "getEnvVar" || fn == "bindConstants" {
				continue
			}
			f := funcs[fn]
			params := f.Parameters()
			props := map[string]*schema.PropertySchema{}
			text := fn + "("
			for i := range params {
				props[fmt.Sprintf("a%d", i)] = schema.NewPropertySchema(params[i], nil, true, nil, nil, nil, nil, nil)
				if i > 0 {
					text += ", "
				}
				text += fmt.Sprintf("$.a%d", i)
			}
			text += ")"
			scope := schema.NewScopeSchema(schema.NewObjectSchema("root", props))
			expr, err := expressions.New(text)
			if err != nil {
				add(fn, "expression-compiles", nil, err.Error())
				continue
			}
			fschemas := map[string]schema.Function{}
			for k, v := range funcs {
				fschemas[k] = v
			}
			et, terr := expr.Type(scope, fschemas, nil)
			for _, a := range genArgs(fn, params, rng, 60) {
				data := map[string]any{}
				for i := range a {
					data[fmt.Sprintf("a%d", i)] = a[i]
				}
				var ev any
				var eerr error
				var pan any
				func() {
					defer func() { pan = recover() }()
					ev, eerr = expr.Evaluate(data, funcs, nil)
				}()
				exprChecked++
				if pan != nil {
					add(fn, "expression-panic", a, fmt.Sprintf("Evaluate panicked: %v", pan))
					continue
				}
				dr, derr, _ := safeCall(f, a)
				if (eerr == nil) != (derr == nil) || (eerr == nil && !sameValue(ev, dr)) {
					add(fn, "expression-agrees-with-call", a, fmt.Sprintf("Evaluate: %v/%v, Call: %v/%v", ev, eerr, dr, derr))
				}
				if eerr == nil && terr == nil && et != nil {
					if _, uerr := et.Unserialize(ev); uerr != nil {
						add(fn, "expression-type", a, fmt.Sprintf("value %v is rejected by the type the expression was given (%s): %v", ev, et.TypeID(), uerr))
					}
				}
			}
		}
		// Concurrent evaluation: the functions are shared by all runs of a process. For every function a table of arguments is
		// evaluated once sequentially; then 8 goroutines evaluate the same table at the same time (each in its own order) and
		// every result must equal the sequential one.
		concurrentCalls := 0
		for _, fn := range names {
			if fn == "readFile" || fn == "getEnvVar" {
				continue
			}
			f := funcs[fn]
			table := genArgs(fn, f.Parameters(), rng, 24)
			type outcome struct {
				r   any
				err bool
				pan bool
			}
			want := make([]outcome, len(table))
			for i, a := range table {
				r, err, p := safeCall(f, a)
				want[i] = outcome{r, err != nil, p != nil}
			}
			var mu sync.Mutex
			var wg sync.WaitGroup
			start := make(chan struct{})
			reported := false
			for w := 0; w < 8; w++ {
				wg.Add(1)
				go func(w int) {
					defer wg.Done()
					<-start
					for rep := 0; rep < 40; rep++ {
						for k := range table {
							i := (k*7 + w*3 + rep) % len(table)
							r, err, p := safeCall(f, table[i])
							got := outcome{r, err != nil, p != nil}
							if got.err != want[i].err || got.pan != want[i].pan || (!got.err && !got.pan && !sameValue(got.r, want[i].r)) {
								mu.Lock()
								if !reported {
									reported = true
									add(fn, "same-result-when-called-concurrently", table[i], fmt.Sprintf("sequential call gave %v, the same call made while other goroutines call the function gave %v", want[i].r, got.r))
								}
								mu.Unlock()
							}
						}
					}
				}(w)
			}
			close(start)
			wg.Wait()
			concurrentCalls += 8 * 40 * len(table)
		}
		// de-duplicate by key, keep the first witness
		seen := map[string]bool{}
		var uniq []fnViolation
		for _, v := range vs {
			if !seen[v.Key] {
				seen[v.Key] = true
				uniq = append(uniq, v)
			}
		}
		res.Extra = map[string]any{"violations": uniq, "calls": calls, "errors_returned": errsReturned, "per_function": perFn, "classes": len(classes),
			"expression_evaluations": exprChecked, "concurrent_calls": concurrentCalls, "samples": samples, "functions": names}
	}
}


func deref(p *int64) any {
	if p == nil {
		return nil
	}
	return *p
}
