//go:build verif

package main

import (
	"encoding/json"
	"fmt"
	"math"
	"reflect"
	"sort"
	"strconv"
	"strings"
)

// enc writes a Go value as JSON while keeping what the monitors need to see about its Go type:
//   - int64 -> JSON integer; every other integer kind -> {"!int":"<kind>","v":<n>}
//   - float64 -> JSON number always carrying '.', 'e' (so Python reads a float); NaN/Inf -> {"!float":"NaN"}
//   - maps with string (or any-typed string) keys -> object; other key types -> {"!map":[[k,v],...]}
//   - structs / pointers to structs -> {"!struct":"pkg.Type","fields":{...}} (exported fields)
//   - []byte -> {"!bytes":"..."}
func enc(sb *strings.Builder, v any, depth int) {
	if depth > 64 {
		sb.WriteString(`{"!deep":true}`)
		return
	}
	if v == nil {
		sb.WriteString("null")
		return
	}
	switch x := v.(type) {
	case string:
		b, _ := json.Marshal(x)
		sb.Write(b)
		return
	case bool:
		if x {
			sb.WriteString("true")
		} else {
			sb.WriteString("false")
		}
		return
	case int64:
		sb.WriteString(strconv.FormatInt(x, 10))
		return
	case float64:
		encFloat(sb, x)
		return
	case error:
		b, _ := json.Marshal(x.Error())
		sb.WriteString(`{"!error":`)
		sb.Write(b)
		sb.WriteString("}")
		return
	case json.RawMessage:
		sb.Write(x)
		return
	}
	rv := reflect.ValueOf(v)
	switch rv.Kind() {
	case reflect.Int, reflect.Int8, reflect.Int16, reflect.Int32, reflect.Int64:
		fmt.Fprintf(sb, `{"!int":%q,"v":%d}`, rv.Type().String(), rv.Int())
	case reflect.Uint, reflect.Uint8, reflect.Uint16, reflect.Uint32, reflect.Uint64:
		fmt.Fprintf(sb, `{"!int":%q,"v":%d}`, rv.Type().String(), rv.Uint())
	case reflect.Float32:
		sb.WriteString(`{"!float32":`)
		encFloat(sb, rv.Float())
		sb.WriteString("}")
	case reflect.Float64:
		encFloat(sb, rv.Float())
	case reflect.String:
		b, _ := json.Marshal(rv.String())
		fmt.Fprintf(sb, `{"!string":%q,"v":%s}`, rv.Type().String(), b)
	case reflect.Bool:
		fmt.Fprintf(sb, `{"!bool":%q,"v":%t}`, rv.Type().String(), rv.Bool())
	case reflect.Slice, reflect.Array:
		if rv.Kind() == reflect.Slice && rv.IsNil() {
			sb.WriteString("null")
			return
		}
		if rv.Type().Elem().Kind() == reflect.Uint8 {
			b, _ := json.Marshal(string(rv.Bytes()))
			sb.WriteString(`{"!bytes":`)
			sb.Write(b)
			sb.WriteString("}")
			return
		}
		sb.WriteString("[")
		for i := 0; i < rv.Len(); i++ {
			if i > 0 {
				sb.WriteString(",")
			}
			enc(sb, rv.Index(i).Interface(), depth+1)
		}
		sb.WriteString("]")
	case reflect.Map:
		if rv.IsNil() {
			sb.WriteString("null")
			return
		}
		keys := rv.MapKeys()
		allStr := true
		for _, k := range keys {
			kk := k
			if kk.Kind() == reflect.Interface {
				kk = kk.Elem()
			}
			if !kk.IsValid() || kk.Kind() != reflect.String {
				allStr = false
				break
			}
		}
		if allStr {
			type kv struct {
				k string
				v reflect.Value
			}
			kvs := make([]kv, 0, len(keys))
			for _, k := range keys {
				kk := k
				if kk.Kind() == reflect.Interface {
					kk = kk.Elem()
				}
				kvs = append(kvs, kv{kk.String(), rv.MapIndex(k)})
			}
			sort.Slice(kvs, func(i, j int) bool { return kvs[i].k < kvs[j].k })
			sb.WriteString("{")
			for i, e := range kvs {
				if i > 0 {
					sb.WriteString(",")
				}
				b, _ := json.Marshal(e.k)
				sb.Write(b)
				sb.WriteString(":")
				enc(sb, e.v.Interface(), depth+1)
			}
			sb.WriteString("}")
			return
		}
		type pair struct{ k, v string }
		ps := make([]pair, 0, len(keys))
		for _, k := range keys {
			var kb, vb strings.Builder
			enc(&kb, k.Interface(), depth+1)
			enc(&vb, rv.MapIndex(k).Interface(), depth+1)
			ps = append(ps, pair{kb.String(), vb.String()})
		}
		sort.Slice(ps, func(i, j int) bool { return ps[i].k < ps[j].k })
		sb.WriteString(`{"!map":[`)
		for i, p := range ps {
			if i > 0 {
				sb.WriteString(",")
			}
			sb.WriteString("[" + p.k + "," + p.v + "]")
		}
		sb.WriteString("]}")
	case reflect.Ptr, reflect.Interface:
		if rv.IsNil() {
			sb.WriteString("null")
			return
		}
		if rv.Kind() == reflect.Ptr && rv.Elem().Kind() == reflect.Struct {
			encStruct(sb, rv.Elem(), "*"+rv.Elem().Type().String(), depth)
			return
		}
		enc(sb, rv.Elem().Interface(), depth+1)
	case reflect.Struct:
		encStruct(sb, rv, rv.Type().String(), depth)
	default:
		fmt.Fprintf(sb, `{"!other":%q}`, rv.Type().String())
	}
}

func encStruct(sb *strings.Builder, rv reflect.Value, name string, depth int) {
	fmt.Fprintf(sb, `{"!struct":%q,"fields":{`, name)
	first := true
	for i := 0; i < rv.NumField(); i++ {
		f := rv.Type().Field(i)
		if !f.IsExported() {
			continue
		}
		if !first {
			sb.WriteString(",")
		}
		first = false
		b, _ := json.Marshal(f.Name)
		sb.Write(b)
		sb.WriteString(":")
		enc(sb, rv.Field(i).Interface(), depth+1)
	}
	sb.WriteString("}}")
}

func encFloat(sb *strings.Builder, f float64) {
	switch {
	case math.IsNaN(f):
		sb.WriteString(`{"!float":"NaN"}`)
	case math.IsInf(f, 1):
		sb.WriteString(`{"!float":"+Inf"}`)
	case math.IsInf(f, -1):
		sb.WriteString(`{"!float":"-Inf"}`)
	default:
		s := strconv.FormatFloat(f, 'g', -1, 64)
		if !strings.ContainsAny(s, ".e") {
			s += ".0"
		}
		sb.WriteString(s)
	}
}

func toJSON(v any) json.RawMessage {
	var sb strings.Builder
	enc(&sb, v, 0)
	return json.RawMessage(sb.String())
}

// fromJSON converts a decoded JSON document (UseNumber) into the Go values a caller of the engine
// API would pass: integers as int64, other numbers as float64, objects as map[string]any.
// {"!f": "NaN"} style escapes allow special floats; {"!anymap": {...}} yields map[any]any.
func fromJSON(v any) any {
	switch x := v.(type) {
	case json.Number:
		if i, err := strconv.ParseInt(string(x), 10, 64); err == nil {
			return i
		}
		f, _ := strconv.ParseFloat(string(x), 64)
		return f
	case []any:
		out := make([]any, len(x))
		for i, e := range x {
			out[i] = fromJSON(e)
		}
		return out
	case map[string]any:
		if s, ok := x["!f"]; ok && len(x) == 1 {
			f, _ := strconv.ParseFloat(fmt.Sprint(s), 64)
			return f
		}
		if m, ok := x["!anymap"].(map[string]any); ok && len(x) == 1 {
			out := make(map[any]any, len(m))
			for k, e := range m {
				out[k] = fromJSON(e)
			}
			return out
		}
		out := make(map[string]any, len(x))
		for k, e := range x {
			out[k] = fromJSON(e)
		}
		return out
	}
	return v
}

func stringsReader(s string) *strings.Reader { return strings.NewReader(s) }
