//go:build verif

package main

import (
	"encoding/json"
	"fmt"
	"regexp"

	"go.flow.arcalot.io/engine/internal/builtinfunctions"
	"go.flow.arcalot.io/engine/workflow"
)

var inferredID = regexp.MustCompile(`inferred_schema_[a-z0-9]{32}`)

// canonical renames generated object ids by order of first occurrence in the (key-sorted) JSON text.
func canonical(b []byte) string {
	seen := map[string]string{}
	return inferredID.ReplaceAllStringFunc(string(b), func(s string) string {
		if r, ok := seen[s]; ok {
			return r
		}
		r := fmt.Sprintf("inferred#%d", len(seen))
		seen[s] = r
		return r
	})
}

// canonicalForm is the comparable text of a prepared workflow: dependency graph, output schemas and namespaces, keys
// sorted and generated ids renamed.
func canonicalForm(prepared workflow.ExecutableWorkflow) string {
	tmp := &Result{}
	tmp.DAG = dumpDAG(prepared)
	dumpSchemas(prepared, tmp)
	b, _ := json.Marshal(map[string]any{"dag": tmp.DAG, "schema": tmp.OutSchema, "namespaces": tmp.Namespaces})
	// re-marshal through a generic value so that all object keys are sorted
	var generic any
	_ = json.Unmarshal(b, &generic)
	b, _ = json.Marshal(generic)
	return canonical(b)
}

// prep_many: parse and prepare the same files extra.reps times in one process (Go randomises map iteration
// every time) and report how many distinct verdicts / canonical forms were seen.
func init() {
	modes["prep_many"] = func(c *Case, res *Result) {
		reps := 30
		if v, ok := c.Extra["reps"]; ok {
			_ = json.Unmarshal(v, &reps)
		}
		logger := newLogger()
		files := map[string][]byte{}
		for k, v := range c.Files {
			files[k] = []byte(v)
		}
		mainName := c.Main
		if mainName == "" {
			mainName = "workflow.yaml"
		}
		forms := map[string]int{}
		verdicts := map[string]int{}
		var first string
		shareRegistry := false
		if v, ok := c.Extra["share_registry"]; ok {
			_ = json.Unmarshal(v, &shareRegistry)
		}
		sharedReg, sharedCfg, sharedErr := newRegistry(logger)
		for i := 0; i < reps; i++ {
			reg, cfg, err := sharedReg, sharedCfg, sharedErr
			if !shareRegistry {
				reg, cfg, err = newRegistry(logger)
			}
			if err != nil {
				res.ParseErr = "harness: " + err.Error()
				return
			}
			wf, err := workflow.NewYAMLConverter(reg).FromYAML(files[mainName])
			if err != nil {
				verdicts["parse-error"]++
				continue
			}
			ex, _ := workflow.NewExecutor(logger, cfg, reg, builtinfunctions.GetFunctions())
			prepared, err := ex.Prepare(wf, files)
			if err != nil {
				verdicts["prepare-error"]++
				continue
			}
			verdicts["accepted"]++
			cs := canonicalForm(prepared)
			if first == "" {
				first = cs
			}
			forms[cs]++
		}
		res.Extra = map[string]any{"verdicts": verdicts, "distinct_forms": len(forms), "canonical": first}
		if len(forms) > 1 {
			var others []string
			for f := range forms {
				if f != first {
					others = append(others, f)
				}
			}
			res.Extra["other_form"] = others[0]
		}
	}
}
