//go:build verif

package main

import (
	"context"
	"encoding/json"
	"fmt"
	"strings"
	"sync"

	"go.flow.arcalot.io/engine/internal/builtinfunctions"
	"go.flow.arcalot.io/engine/internal/verif/splugin"
	"go.flow.arcalot.io/engine/workflow"
)

// papi: the "parallel API" workload. extra.workers goroutines each parse, prepare and execute the case's
// workflow extra.iterations times, sharing one step registry (as one engine instance would).
func init() {
	modes["papi"] = func(c *Case, res *Result) {
		workers, iters := 4, 3
		shareExec := false
		if v, ok := c.Extra["workers"]; ok {
			_ = json.Unmarshal(v, &workers)
		}
		if v, ok := c.Extra["iterations"]; ok {
			_ = json.Unmarshal(v, &iters)
		}
		if v, ok := c.Extra["share_prepared"]; ok {
			_ = json.Unmarshal(v, &shareExec)
		}
		logger := newLogger()
		reg, cfg, err := newRegistry(logger)
		if err != nil {
			res.ParseErr = "harness: " + err.Error()
			return
		}
		files := map[string][]byte{}
		for k, v := range c.Files {
			files[k] = []byte(v)
		}
		mainName := c.Main
		if mainName == "" {
			mainName = "workflow.yaml"
		}
		var input any
		if len(c.Runs) > 0 && len(c.Runs[0].Input) > 0 {
			dec := json.NewDecoder(strings.NewReader(string(c.Runs[0].Input)))
			dec.UseNumber()
			var raw any
			_ = dec.Decode(&raw)
			input = fromJSON(raw)
		}
		var shared workflow.ExecutableWorkflow
		if shareExec {
			wf, err := workflow.NewYAMLConverter(reg).FromYAML(files[mainName])
			if err != nil {
				res.ParseErr = err.Error()
				return
			}
			ex, _ := workflow.NewExecutor(logger, cfg, reg, builtinfunctions.GetFunctions())
			shared, err = ex.Prepare(wf, files)
			if err != nil {
				res.PrepErr = err.Error()
				return
			}
		}
		var mu sync.Mutex
		var wg sync.WaitGroup
		start := make(chan struct{}) // all workers begin together (their first parse may be the first of the process)
		for w := 0; w < workers; w++ {
			wg.Add(1)
			go func(w int) {
				defer wg.Done()
				<-start
				for it := 0; it < iters; it++ {
					prepared := shared
					if prepared == nil {
						wf, err := workflow.NewYAMLConverter(reg).FromYAML(files[mainName])
						if err != nil {
							mu.Lock()
							res.Runs = append(res.Runs, RunResult{Tag: fmt.Sprintf("w%d/%d", w, it), Err: "parse: " + err.Error(), ErrType: errType(err)})
							mu.Unlock()
							continue
						}
						ex, _ := workflow.NewExecutor(logger, cfg, reg, builtinfunctions.GetFunctions())
						prepared, err = ex.Prepare(wf, files)
						if err != nil {
							mu.Lock()
							res.Runs = append(res.Runs, RunResult{Tag: fmt.Sprintf("w%d/%d", w, it), Err: "prepare: " + err.Error(), ErrType: errType(err)})
							mu.Unlock()
							continue
						}
						_ = prepared.Namespaces()
						_ = prepared.DAG().Mermaid()
					}
					id, data, err := prepared.Execute(context.Background(), input)
					rr := RunResult{Tag: fmt.Sprintf("w%d/%d", w, it), OutID: id}
					if err != nil {
						rr.Err, rr.ErrType = err.Error(), errType(err)
					} else {
						rr.Data = toJSON(data)
					}
					mu.Lock()
					res.Runs = append(res.Runs, rr)
					mu.Unlock()
				}
			}(w)
		}
		close(start)
		wg.Wait()
		res.OpenConns = splugin.OpenConns.Load()
		res.Census0, res.Leak, res.SettleMS = settle(1000)
	}
}
