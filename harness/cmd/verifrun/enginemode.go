//go:build verif

package main

import (
	"sync"
	"context"
	"encoding/json"
	"os"
	"path/filepath"
	"strings"

	log "go.arcalot.io/log/v2"
	"go.flow.arcalot.io/deployer"
	deployerregistry "go.flow.arcalot.io/deployer/registry"
	"go.flow.arcalot.io/engine"
	"go.flow.arcalot.io/engine/config"
	"go.flow.arcalot.io/engine/internal/verif/splugin"
	intyaml "go.flow.arcalot.io/engine/internal/yaml"
	"go.flow.arcalot.io/engine/loadfile"
	"go.flow.arcalot.io/engine/workflow"
)

type engineOpts struct {
	Cache     string `json:"cache"`      // "context" (files read from disk like the CLI) | "memory"
	Dir       string `json:"dir"`        // sub-directory name of the scratch dir used as context
	Chdir     string `json:"chdir"`      // working directory relative to the scratch dir ("" = unchanged)
	RelDir    bool   `json:"rel_dir"`    // pass the context directory as a relative path
	InputYAML string `json:"input_yaml"` // raw input document
	ParseOnly bool   `json:"parse_only"`
	Unreadable []string `json:"unreadable"`
	MkDirs    []string `json:"mkdirs"` // create directories with these names (directory-instead-of-file)
	// ChdirBeforeParse changes the working directory (relative to the scratch dir) after the file cache has been built and
	// loaded and before Parse; with Decoy, the same relative context path below that directory holds a different tree.
	// Stale: the context directory first holds these contents for the named files; the cache is loaded, the files are
	// replaced by the case's real contents, and the same cache object is loaded again before Parse.
	Stale            map[string]string `json:"stale"`
	ChdirBeforeParse string            `json:"chdir_before_parse"`
	Decoy            map[string]string `json:"decoy"`
	// ContextKeys: further files the caller registers in the file cache under keys of its own, as the command line program
	// does with "input" and "config" (key -> file name; a named file that does not exist is written empty).
	ContextKeys map[string]string `json:"context_keys"`
	// MainKey: the key under which the caller registers the main workflow file (default "workflow").
	// Again: after the first Parse+Run, the same file cache object is parsed and run this many more times (run tags "again<i>").
	// ParallelParses: instead, this many goroutines Parse (and Run) the same file cache object at once (run tags "par<i>").
	MainKey        string `json:"main_key"`
	Again          int    `json:"again"`
	ParallelParses int    `json:"parallel_parses"`
}

func engineConfig() *config.Config {
	cfg := &config.Config{
		LocalDeployers: map[string]any{"scripted": map[string]any{"deployer_name": "scripted"}},
		Log:            log.Config{Level: log.LevelError, Destination: log.DestinationStdout, Stdout: devNull{}},
	}
	return cfg
}

type devNull struct{}

func (devNull) Write(p []byte) (int, error) { return len(p), nil }

// engine: run the case through the embeddable engine API (engine.New(...).Parse + Run) from files on disk.
func init() {
	modes["engine"] = func(c *Case, res *Result) {
		var o engineOpts
		if v, ok := c.Extra["engine"]; ok {
			_ = json.Unmarshal(v, &o)
		}
		engine.DefaultDeployerRegistry = deployerregistry.New(deployer.Any(splugin.NewFactory()))
		scratch, err := os.MkdirTemp(".", "eng-")
		if err != nil {
			res.ParseErr = "harness: " + err.Error()
			return
		}
		scratch, _ = filepath.Abs(scratch)
		defer os.RemoveAll(scratch)
		ctxDir := scratch
		if o.Dir != "" {
			ctxDir = filepath.Join(scratch, o.Dir)
		}
		for _, d := range o.MkDirs {
			_ = os.MkdirAll(filepath.Join(ctxDir, d), 0o755)
		}
		for name, content := range c.Files {
			p := filepath.Join(ctxDir, name)
			_ = os.MkdirAll(filepath.Dir(p), 0o755)
			if old, ok := o.Stale[name]; ok {
				content = old
			}
			if err := os.WriteFile(p, []byte(content), 0o644); err != nil {
				continue
			}
		}
		for _, u := range o.Unreadable {
			_ = os.Chmod(filepath.Join(ctxDir, u), 0o000)
		}
		oldwd, _ := os.Getwd()
		defer func() { _ = os.Chdir(oldwd) }()
		if o.Chdir != "" {
			wd := filepath.Join(scratch, o.Chdir)
			_ = os.MkdirAll(wd, 0o755)
			_ = os.Chdir(wd)
		}
		dirArg := ctxDir
		if o.RelDir {
			wd, _ := os.Getwd()
			if rel, err := filepath.Rel(wd, ctxDir); err == nil {
				dirArg = rel
			}
		}
		mainName := c.Main
		if mainName == "" {
			mainName = "workflow.yaml"
		}
		flow, err := engine.New(engineConfig())
		if err != nil {
			res.ParseErr = "harness: engine.New: " + err.Error()
			return
		}
		var fc loadfile.FileCache
		key := mainName
		if o.Cache == "memory" {
			contents := map[string][]byte{}
			for name, content := range c.Files {
				contents[name] = []byte(content)
			}
			fc = loadfile.NewFileCache(dirArg, contents)
		} else {
			key = "workflow"
			if o.MainKey != "" {
				key = o.MainKey
			}
			keys := map[string]string{key: mainName}
			for k, name := range o.ContextKeys {
				keys[k] = name
				if _, statErr := os.Stat(filepath.Join(ctxDir, name)); statErr != nil {
					_ = os.WriteFile(filepath.Join(ctxDir, name), []byte("{}\n"), 0o644)
				}
			}
			fc, err = loadfile.NewFileCacheUsingContext(dirArg, keys)
			if err == nil {
				err = fc.LoadContext()
			}
			if err == nil && len(o.Stale) > 0 {
				for name := range o.Stale {
					_ = os.WriteFile(filepath.Join(ctxDir, name), []byte(c.Files[name]), 0o644)
				}
				err = fc.LoadContext()
			}
			if err != nil {
				res.ParseErr, res.ParseType = err.Error(), "load"
				return
			}
		}
		if o.ChdirBeforeParse != "" {
			wd2 := filepath.Join(scratch, o.ChdirBeforeParse)
			_ = os.MkdirAll(wd2, 0o755)
			if !filepath.IsAbs(dirArg) {
				for name, content := range o.Decoy {
					p := filepath.Join(wd2, dirArg, name)
					if !strings.HasPrefix(p, scratch+string(filepath.Separator)) || strings.HasPrefix(p, ctxDir+string(filepath.Separator)) {
						res.ParseErr = "harness: decoy tree would not be a separate tree inside the scratch directory: " + p
						return
					}
					_ = os.MkdirAll(filepath.Dir(p), 0o755)
					_ = os.WriteFile(p, []byte(content), 0o644)
				}
			}
			_ = os.Chdir(wd2)
		}
		input := []byte(o.InputYAML)
		if len(c.Runs) > 0 && len(c.Runs[0].Input) > 0 && o.InputYAML == "" {
			input = []byte(c.Runs[0].Input) // JSON is YAML
		}
		runOnce := func(tag string) RunResult {
			wf, err := flow.Parse(fc, key)
			if err != nil {
				return RunResult{Tag: tag, Err: err.Error(), ErrType: "parse"}
			}
			outID, outData, _, err := wf.Run(context.Background(), input)
			rr := RunResult{Tag: tag, OutID: outID}
			if err != nil {
				rr.Err, rr.ErrType = err.Error(), errType(err)
			} else {
				rr.Data = toJSON(outData)
			}
			return rr
		}
		if o.ParallelParses > 0 {
			results := make([]RunResult, o.ParallelParses)
			var wg sync.WaitGroup
			start := make(chan struct{})
			for i := 0; i < o.ParallelParses; i++ {
				wg.Add(1)
				go func(i int) {
					defer wg.Done()
					<-start
					results[i] = runOnce("par" + itoa(i))
				}(i)
			}
			close(start)
			wg.Wait()
			res.Runs = results
			res.Extra = map[string]any{"cache_keys": len(fc.Files())}
			return
		}
		splugin.Log("parse-call", "", 0, "", nil)
		wf, err := flow.Parse(fc, key)
		res.PrepConns = splugin.OpenConns.Load()
		if err != nil {
			res.PrepErr, res.PrepType = err.Error(), errType(err)
			splugin.Log("parse-return", "", 0, "", err.Error())
			_, res.PrepLeak, _ = settle(500)
			return
		}
		splugin.Log("parse-return", "", 0, "", nil)
		if o.ParseOnly {
			outs := map[string]bool{}
			for id, out := range wf.Outputs() {
				outs[id] = out.Error()
			}
			res.Extra = map[string]any{"outputs_error_flag": outs}
			return
		}
		outID, outData, outIsErr, err := wf.Run(context.Background(), input)
		rr := RunResult{OutID: outID}
		if err != nil {
			rr.Err, rr.ErrType = err.Error(), errType(err)
		} else {
			rr.Data = toJSON(outData)
		}
		res.Runs = []RunResult{rr}
		outs := map[string]bool{}
		for id, out := range wf.Outputs() {
			outs[id] = out.Error()
		}
		res.Extra = map[string]any{"output_is_error": outIsErr, "outputs_error_flag": outs}
		for i := 0; i < o.Again; i++ {
			res.Runs = append(res.Runs, runOnce("again"+itoa(i+1)))
		}
		if o.Again > 0 {
			res.Extra["cache_keys"] = len(fc.Files())
		}
		res.OpenConns = splugin.OpenConns.Load()
		res.Census0, res.Leak, res.SettleMS = settle(1000)
	}

	// rawparse: FromYAML of the main file plus decoding of an input document; nothing is prepared or run.
	modes["rawparse"] = func(c *Case, res *Result) {
		var o engineOpts
		if v, ok := c.Extra["engine"]; ok {
			_ = json.Unmarshal(v, &o)
		}
		logger := newLogger()
		reg, _, err := newRegistry(logger)
		if err != nil {
			res.ParseErr = "harness: " + err.Error()
			return
		}
		mainName := c.Main
		if mainName == "" {
			mainName = "workflow.yaml"
		}
		_, err = workflow.NewYAMLConverter(reg).FromYAML([]byte(c.Files[mainName]))
		if err != nil {
			res.ParseErr, res.ParseType = firstN(err.Error(), 300), errType(err)
		}
		if o.InputYAML != "" {
			n, err := intyaml.New().Parse([]byte(o.InputYAML))
			if err != nil {
				res.Extra = map[string]any{"input_err": firstN(err.Error(), 200)}
			} else {
				_ = n.Raw()
				res.Extra = map[string]any{"input_ok": true}
			}
		}
	}
}

func firstN(s string, n int) string {
	s = strings.ToValidUTF8(s, "?")
	if len(s) > n {
		return s[:n]
	}
	return s
}

// engine_seq: ONE engine instance parses and runs several workflow trees one after the other, each from its own context
// directory (extra.sequence = [{files, input_yaml, rel_dir}]). One run entry per element (tag "seq<i>"); a refusal by
// Parse is that entry's error with type "parse". extra.cwd_changed lists the elements after which the working directory
// of the process was not what it was before.
type engineSeqItem struct {
	Files     map[string]string `json:"files"`
	InputYAML string            `json:"input_yaml"`
	RelDir    bool              `json:"rel_dir"`
}

func init() {
	modes["engine_seq"] = func(c *Case, res *Result) {
		var seq []engineSeqItem
		if v, ok := c.Extra["sequence"]; ok {
			if err := json.Unmarshal(v, &seq); err != nil {
				res.ParseErr = "harness: bad sequence: " + err.Error()
				return
			}
		}
		engine.DefaultDeployerRegistry = deployerregistry.New(deployer.Any(splugin.NewFactory()))
		scratch, err := os.MkdirTemp(".", "engseq-")
		if err != nil {
			res.ParseErr = "harness: " + err.Error()
			return
		}
		scratch, _ = filepath.Abs(scratch)
		defer os.RemoveAll(scratch)
		oldwd, _ := os.Getwd()
		defer func() { _ = os.Chdir(oldwd) }()
		_ = os.Chdir(scratch)
		flow, err := engine.New(engineConfig())
		if err != nil {
			res.ParseErr = "harness: engine.New: " + err.Error()
			return
		}
		cwdChanged := []int{}
		for i, it := range seq {
			tag := "seq" + itoa(i)
			ctxDir := filepath.Join(scratch, "ctx"+itoa(i))
			for name, content := range it.Files {
				p := filepath.Join(ctxDir, name)
				_ = os.MkdirAll(filepath.Dir(p), 0o755)
				_ = os.WriteFile(p, []byte(content), 0o644)
			}
			before, _ := os.Getwd()
			dirArg := ctxDir
			if it.RelDir {
				if rel, rerr := filepath.Rel(before, ctxDir); rerr == nil {
					dirArg = rel
				}
			}
			rr := RunResult{Tag: tag}
			fc, err := loadfile.NewFileCacheUsingContext(dirArg, map[string]string{"workflow": "workflow.yaml"})
			if err == nil {
				err = fc.LoadContext()
			}
			if err != nil {
				rr.Err, rr.ErrType = err.Error(), "load"
			} else if wf, perr := flow.Parse(fc, "workflow"); perr != nil {
				rr.Err, rr.ErrType = perr.Error(), "parse"
			} else {
				outID, outData, _, rerr := wf.Run(context.Background(), []byte(it.InputYAML))
				rr.OutID = outID
				if rerr != nil {
					rr.Err, rr.ErrType = rerr.Error(), errType(rerr)
				} else {
					rr.Data = toJSON(outData)
				}
			}
			after, _ := os.Getwd()
			if after != before {
				cwdChanged = append(cwdChanged, i)
				_ = os.Chdir(before)
			}
			res.Runs = append(res.Runs, rr)
		}
		res.Extra = map[string]any{"cwd_changed": cwdChanged}
	}
}
