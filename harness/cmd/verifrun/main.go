//go:build verif

// Command verifrun is the child-process runner of the verification harness. It reads cases (one JSON
// object per line) from a batch file, executes each against the real engine with the scripted
// deployer/plugin, and appends one JSON result per case to the output file. A line {"start": id} is
// written before each case so the driver can attribute a crash or hang to the case that caused it.
//
// It is a plain main program: no signal handlers, no background timers of its own while a run is in
// progress, so the Go runtime's "all goroutines are asleep - deadlock!" report is the hang oracle.
package main

import (
	"bufio"
	"context"
	"encoding/json"
	"errors"
	"fmt"
	"os"
	"runtime"
	"runtime/debug"
	"sort"
	"strings"
	"sync"
	"time"

	log "go.arcalot.io/log/v2"
	"go.flow.arcalot.io/deployer"
	deployerregistry "go.flow.arcalot.io/deployer/registry"
	"go.flow.arcalot.io/engine/config"
	"go.flow.arcalot.io/engine/internal/builtinfunctions"
	"go.flow.arcalot.io/engine/internal/step"
	"go.flow.arcalot.io/engine/internal/step/foreach"
	"go.flow.arcalot.io/engine/internal/step/plugin"
	stepregistry "go.flow.arcalot.io/engine/internal/step/registry"
	verifsched "go.flow.arcalot.io/engine/internal/verif/sched"
	"go.flow.arcalot.io/engine/internal/verif/splugin"
	"go.flow.arcalot.io/engine/workflow"
)

// RunSpec is one Execute call of a case.
type RunSpec struct {
	Input    json.RawMessage `json:"input"`
	Parallel bool            `json:"parallel"` // start together with the following parallel runs
	Tag      string          `json:"tag"`
	// Setenv: environment variables set (empty value: unset) right before this run starts (sequential runs only).
	Setenv map[string]string `json:"setenv"`
}

// Case is one unit of work.
type Case struct {
	ID        string                     `json:"id"`
	Mode      string                     `json:"mode"`
	Files     map[string]string          `json:"files"`
	Main      string                     `json:"main"`
	Scripts   map[string]*splugin.Script `json:"scripts"`
	Triggers  []splugin.Trigger          `json:"triggers"`
	Plan      *verifsched.Plan           `json:"plan"`
	Runs      []RunSpec                  `json:"runs"`
	DumpDAG   bool                       `json:"dump_dag"`
	DumpSch   bool                       `json:"dump_schema"`
	// PrepareTwice: the workflow object converted from the YAML text is prepared a second time (by a new executor) and the
	// second preparation is the one that is inspected and run.
	PrepareTwice bool `json:"prepare_twice"`
	// LoggedOutputs: output id -> milliseconds the log target takes to write the "logged output" message of a step
	// that ended with this output (engine configuration logged_outputs with a slow log target).
	LoggedOutputs map[string]int `json:"logged_outputs"`
	SettleMS  int                        `json:"settle_ms"`
	Reps      int                        `json:"reps"`
	Extra     map[string]json.RawMessage `json:"extra"`
	NoEvents  bool                       `json:"no_events"`
	PlanScope string                     `json:"plan_scope"` // "" = whole case, "execute" = load plan only around Execute
}

// RunResult is the outcome of one Execute call.
type RunResult struct {
	Tag       string          `json:"tag,omitempty"`
	OutID     string          `json:"out_id"`
	Data      json.RawMessage `json:"data,omitempty"`
	Err       string          `json:"err,omitempty"`
	ErrType   string          `json:"err_type,omitempty"`
	ElapsedMS float64         `json:"elapsed_ms"`
	CallSeq   int64           `json:"call_seq"`
	RetSeq    int64           `json:"ret_seq"`
	Schema    string          `json:"schema_check,omitempty"` // "" ok, else why the returned data does not match OutputSchema()
}

// Result is what the runner reports per case.
type Result struct {
	ID          string           `json:"id"`
	ParseErr    string           `json:"parse_err,omitempty"`
	ParseType   string           `json:"parse_err_type,omitempty"`
	PrepErr     string           `json:"prepare_err,omitempty"`
	PrepType    string           `json:"prepare_err_type,omitempty"`
	PrepConns   int64            `json:"prepare_open_conns"`
	PrepLeak    []string         `json:"prepare_leak,omitempty"`
	Runs        []RunResult      `json:"runs,omitempty"`
	Events      []splugin.Event  `json:"-"`
	EventsJSON  json.RawMessage  `json:"events,omitempty"`
	OpenConns   int64            `json:"open_conns"`
	OpenExecs   int64            `json:"open_execs"`
	Census0     []string         `json:"census_at_return,omitempty"`
	Leak        []string         `json:"leak,omitempty"`
	SettleMS    float64          `json:"settle_ms"`
	Hits        map[string]int   `json:"hits,omitempty"`
	Delayed     []string         `json:"delayed,omitempty"`
	DAG         *DAGDump         `json:"dag,omitempty"`
	OutSchema   json.RawMessage  `json:"out_schema,omitempty"`
	Namespaces  map[string][]string `json:"namespaces,omitempty"`
	Extra       map[string]any   `json:"extra,omitempty"`
	Goroutines  int              `json:"goroutines"`
}

// DAGDump is a canonical dump of a prepared workflow's dependency graph.
type DAGDump struct {
	Nodes map[string]string            `json:"nodes"` // id -> kind
	Deps  map[string]map[string]string `json:"deps"`  // node -> dependency id -> type
	Out   map[string][]string          `json:"out"`   // node -> outbound ids
}

type factories struct {
	reg step.Registry
	cfg *config.Config
}

func (f *factories) yaml() (workflow.YAMLConverter, error) {
	return workflow.NewYAMLConverter(f.reg), nil
}
func (f *factories) exec(l log.Logger) (workflow.Executor, error) {
	return workflow.NewExecutor(l, f.cfg, f.reg, builtinfunctions.GetFunctions())
}

func newLogger() log.Logger {
	switch os.Getenv("VERIF_LOG") {
	case "debug":
		return log.New(log.Config{Level: log.LevelDebug, Destination: log.DestinationStdout, Stdout: os.Stderr})
	case "error":
		return log.New(log.Config{Level: log.LevelError, Destination: log.DestinationStdout, Stdout: os.Stderr})
	}
	return log.NewLogger(log.LevelError, log.NewNOOPLogger())
}

// slowWriter is a log target that takes a while to write the engine's "logged output" messages and drops everything else.
type slowWriter struct{ delays map[string]int }

func (w slowWriter) Write(m log.Message) error {
	if strings.HasPrefix(m.Message, "Output ID for step") {
		for id, ms := range w.delays {
			if strings.Contains(m.Message, "is \""+id+"\"") {
				time.Sleep(time.Duration(ms) * time.Millisecond)
				break
			}
		}
	}
	return nil
}
func (slowWriter) Rotate()      {}
func (slowWriter) Close() error { return nil }

func newRegistry(logger log.Logger) (step.Registry, *config.Config, error) {
	cfg := &config.Config{}
	dreg := deployerregistry.New(deployer.Any(splugin.NewFactory()))
	pp, err := plugin.New(logger, dreg, map[string]any{"scripted": map[string]any{"deployer_name": "scripted"}})
	if err != nil {
		return nil, nil, err
	}
	f := &factories{cfg: cfg}
	fe, err := foreach.New(logger, f.yaml, f.exec)
	if err != nil {
		return nil, nil, err
	}
	reg, err := stepregistry.New(pp, fe)
	if err != nil {
		return nil, nil, err
	}
	f.reg = reg
	return reg, cfg, nil
}

func errType(err error) string {
	if err == nil {
		return ""
	}
	var e1 *workflow.ErrNoMorePossibleSteps
	var e2 *workflow.ErrNoMorePossibleOutputs
	var e3 *workflow.ErrInvalidWorkflow
	var e4 *workflow.ErrInvalidWorkflowYAML
	switch {
	case errors.As(err, &e1):
		return "ErrNoMorePossibleSteps"
	case errors.As(err, &e2):
		return "ErrNoMorePossibleOutputs"
	case errors.As(err, &e3):
		return "ErrInvalidWorkflow"
	case errors.As(err, &e4):
		return "ErrInvalidWorkflowYAML"
	case errors.Is(err, workflow.ErrEmptyWorkflowFile):
		return "ErrEmptyWorkflowFile"
	}
	return "other"
}

var engineFrames = []string{
	"go.flow.arcalot.io/engine/workflow.",
	"go.flow.arcalot.io/engine/internal/step/",
	"go.flow.arcalot.io/engine.",
	"go.flow.arcalot.io/engine/internal/infer",
	"go.flow.arcalot.io/pluginsdk/atp.",
}

// census lists goroutines (other than the caller) that have an engine or ATP-client frame.
// Each entry is "<state> @ <innermost engine frame> <- <creator>".
func census() []string {
	buf := make([]byte, 1<<20)
	for {
		n := runtime.Stack(buf, true)
		if n < len(buf) {
			buf = buf[:n]
			break
		}
		buf = make([]byte, 2*len(buf))
	}
	var out []string
	for i, g := range strings.Split(string(buf), "\n\n") {
		if i == 0 {
			continue // the calling goroutine is printed first
		}
		lines := strings.Split(g, "\n")
		if len(lines) < 2 {
			continue
		}
		frame := ""
		for _, l := range lines[1:] {
			if strings.HasPrefix(l, "\t") || strings.HasPrefix(l, "created by") {
				continue
			}
			for _, p := range engineFrames {
				if strings.HasPrefix(l, p) && !strings.Contains(l, "internal/verif/") {
					if idx := strings.LastIndex(l, "("); idx > 0 {
						l = l[:idx]
					}
					frame = l
					break
				}
			}
			if frame != "" {
				break
			}
		}
		if frame == "" {
			continue
		}
		state := lines[0]
		if a := strings.Index(state, "["); a >= 0 {
			state = strings.TrimSuffix(state[a+1:], "]:")
			if c := strings.Index(state, ","); c >= 0 {
				state = state[:c]
			}
		}
		creator := ""
		for _, l := range lines {
			if strings.HasPrefix(l, "created by ") {
				creator = strings.TrimPrefix(l, "created by ")
				if idx := strings.Index(creator, " in goroutine"); idx > 0 {
					creator = creator[:idx]
				}
			}
		}
		out = append(out, state+" @ "+frame+" <- "+creator)
	}
	sort.Strings(out)
	return out
}

func settle(maxMS int) (at0 []string, final []string, took float64) {
	t0 := time.Now()
	at0 = census()
	final = at0
	for len(final) > 0 && time.Since(t0) < time.Duration(maxMS)*time.Millisecond {
		time.Sleep(2 * time.Millisecond)
		final = census()
	}
	return at0, final, float64(time.Since(t0).Microseconds()) / 1000
}

func dumpDAG(wf workflow.ExecutableWorkflow) *DAGDump {
	d := &DAGDump{Nodes: map[string]string{}, Deps: map[string]map[string]string{}, Out: map[string][]string{}}
	for id, n := range wf.DAG().ListNodes() {
		d.Nodes[id] = string(n.Item().Kind)
		deps := map[string]string{}
		for dep, t := range n.OutstandingDependencies() {
			deps[dep] = string(t)
		}
		for dep, t := range n.ResolvedDependencies() {
			deps[dep] = "resolved:" + string(t)
		}
		d.Deps[id] = deps
		outs, _ := n.ListOutboundConnections()
		var ol []string
		for o := range outs {
			ol = append(ol, o)
		}
		sort.Strings(ol)
		d.Out[id] = ol
	}
	return d
}

func runCase(c *Case) *Result {
	res := &Result{ID: c.ID}
	splugin.Reset()
	verifsched.Clear()
	for src, sc := range c.Scripts {
		splugin.SetScript(src, sc)
	}
	for _, t := range c.Triggers {
		splugin.AddTrigger(t)
	}
	if c.Plan != nil && c.PlanScope != "execute" {
		verifsched.Load(*c.Plan)
	}
	defer func() {
		if !c.NoEvents {
			res.EventsJSON = toJSON(eventsAsAny(splugin.Events()))
		}
		ids, counts := verifsched.Hits()
		if len(ids) > 0 {
			res.Hits = map[string]int{}
			for i, id := range ids {
				res.Hits[id] = counts[i]
			}
		}
		res.Delayed = verifsched.Delayed()
		verifsched.Clear()
		res.Goroutines = runtime.NumGoroutine()
	}()
	settleMS := c.SettleMS
	if settleMS == 0 {
		settleMS = 1000
	}

	switch c.Mode {
	case "", "run":
	default:
		if fn, ok := modes[c.Mode]; ok {
			fn(c, res)
			return res
		}
		res.ParseErr = "unknown mode " + c.Mode
		return res
	}

	logger := newLogger()
	if len(c.LoggedOutputs) > 0 {
		logger = log.NewLogger(log.LevelInfo, slowWriter{c.LoggedOutputs})
	}
	reg, cfg, err := newRegistry(logger)
	if err != nil {
		res.ParseErr = "harness: " + err.Error()
		return res
	}
	if len(c.LoggedOutputs) > 0 {
		cfg.LoggedOutputConfigs = map[string]*config.StepOutputLogConfig{}
		for id := range c.LoggedOutputs {
			cfg.LoggedOutputConfigs[id] = &config.StepOutputLogConfig{LogLevel: log.LevelInfo}
		}
	}
	files := map[string][]byte{}
	for k, v := range c.Files {
		files[k] = []byte(v)
	}
	mainName := c.Main
	if mainName == "" {
		mainName = "workflow.yaml"
	}
	splugin.Log("parse-call", "", 0, "", nil)
	wf, err := workflow.NewYAMLConverter(reg).FromYAML(files[mainName])
	if err != nil {
		res.ParseErr, res.ParseType = err.Error(), errType(err)
		splugin.Log("parse-return", "", 0, "", err.Error())
		return res
	}
	splugin.Log("parse-return", "", 0, "", nil)
	ex, err := workflow.NewExecutor(logger, cfg, reg, builtinfunctions.GetFunctions())
	if err != nil {
		res.ParseErr = "harness: " + err.Error()
		return res
	}
	splugin.Log("prepare-call", "", 0, "", nil)
	prepared, err := ex.Prepare(wf, files)
	res.PrepConns = splugin.OpenConns.Load()
	if err != nil {
		res.PrepErr, res.PrepType = err.Error(), errType(err)
		splugin.Log("prepare-return", "", 0, "", err.Error())
		_, res.PrepLeak, _ = settle(settleMS)
		res.OpenConns = splugin.OpenConns.Load()
		return res
	}
	splugin.Log("prepare-return", "", 0, "", nil)
	if c.PrepareTwice {
		ex2, err := workflow.NewExecutor(logger, cfg, reg, builtinfunctions.GetFunctions())
		if err != nil {
			res.ParseErr = "harness: " + err.Error()
			return res
		}
		prepared, err = ex2.Prepare(wf, files)
		if err != nil {
			res.PrepErr, res.PrepType = "second preparation: "+err.Error(), errType(err)
			return res
		}
	}
	_, res.PrepLeak, _ = settle(settleMS)
	if c.DumpDAG {
		res.DAG = dumpDAG(prepared)
	}
	if c.DumpSch {
		dumpSchemas(prepared, res)
	}
	if c.Plan != nil && c.PlanScope == "execute" {
		verifsched.Load(*c.Plan)
	}

	res.Runs = make([]RunResult, len(c.Runs))
	rawData := make([]any, len(c.Runs))
	poisonResults := false
	if v, ok := c.Extra["poison_results"]; ok {
		_ = json.Unmarshal(v, &poisonResults)
	}
	doRun := func(i int) {
		rs := c.Runs[i]
		for k, v := range rs.Setenv {
			if v == "" {
				_ = os.Unsetenv(k)
			} else {
				_ = os.Setenv(k, v)
			}
		}
		var input any
		if len(rs.Input) > 0 {
			dec := json.NewDecoder(strings.NewReader(string(rs.Input)))
			dec.UseNumber()
			var raw any
			if err := dec.Decode(&raw); err != nil {
				res.Runs[i] = RunResult{Tag: rs.Tag, Err: "harness: bad input json: " + err.Error(), ErrType: "harness"}
				return
			}
			input = fromJSON(raw)
		}
		ctx, cancel := context.WithCancel(context.Background())
		defer cancel()
		name := fmt.Sprintf("cancel:%d", i)
		splugin.RegisterAction(name, func() { splugin.Log("cancel-call", name, 0, "", nil); cancel() })
		verifsched.RegisterAction(name, func() { splugin.Log("cancel-call", name, 0, "", nil); cancel() })
		callSeq := splugin.Log("execute-call", rs.Tag, 0, fmt.Sprint(i), nil)
		t0 := time.Now()
		id, data, err := prepared.Execute(ctx, input)
		el := time.Since(t0)
		rr := RunResult{Tag: rs.Tag, OutID: id, ElapsedMS: float64(el.Microseconds()) / 1000, CallSeq: callSeq}
		if err != nil {
			rr.Err, rr.ErrType = err.Error(), errType(err)
		} else {
			rawData[i] = data // serialised after all runs have returned: data shared between runs must not go unnoticed
			if sch, ok := prepared.OutputSchema()[id]; !ok {
				rr.Schema = "undeclared output id " + id
			} else if _, uerr := sch.Unserialize(data); uerr != nil {
				rr.Schema = uerr.Error()
			}
			if poisonResults {
				// the caller owns what a run returned: it is recorded now and then overwritten in place, as a caller may do;
				// a later run must not see any of it
				rr.Data = toJSON(data)
				rawData[i] = nil
				poison(data)
			}
		}
		rr.RetSeq = splugin.Log("execute-return", rs.Tag, 0, fmt.Sprint(i), map[string]any{"id": id, "err": rr.Err})
		res.Runs[i] = rr
	}
	for i := 0; i < len(c.Runs); {
		if !c.Runs[i].Parallel {
			doRun(i)
			i++
			continue
		}
		j := i
		var wg sync.WaitGroup
		for j < len(c.Runs) && c.Runs[j].Parallel {
			wg.Add(1)
			go func(k int) { defer wg.Done(); doRun(k) }(j)
			j++
		}
		wg.Wait()
		i = j
	}
	for i := range res.Runs {
		if res.Runs[i].Err == "" && res.Runs[i].ErrType == "" && !poisonResults {
			res.Runs[i].Data = toJSON(rawData[i])
		}
	}
	res.OpenConns = splugin.OpenConns.Load()
	res.OpenExecs = splugin.OpenExecs.Load()
	res.Census0, res.Leak, res.SettleMS = settle(settleMS)
	return res
}

func eventsAsAny(evs []splugin.Event) []any {
	out := make([]any, len(evs))
	for i, e := range evs {
		m := map[string]any{"seq": e.Seq, "kind": e.Kind, "src": e.Src, "t": e.T}
		if e.Conn != 0 {
			m["conn"] = e.Conn
		}
		if e.Run != "" {
			m["run"] = e.Run
		}
		if e.Data != nil {
			m["data"] = e.Data
		}
		out[i] = m
	}
	return out
}

var modes = map[string]func(c *Case, res *Result){}

func main() {
	debug.SetMaxStack(64 << 20)
	if len(os.Args) < 3 {
		fmt.Fprintln(os.Stderr, "usage: verifrun <batch.jsonl> <out.jsonl> [skip]")
		os.Exit(64)
	}
	in, err := os.Open(os.Args[1])
	if err != nil {
		fmt.Fprintln(os.Stderr, err)
		os.Exit(64)
	}
	skip := 0
	if len(os.Args) > 3 {
		_, _ = fmt.Sscanf(os.Args[3], "%d", &skip)
	}
	out, err := os.OpenFile(os.Args[2], os.O_APPEND|os.O_CREATE|os.O_WRONLY, 0o644)
	if err != nil {
		fmt.Fprintln(os.Stderr, err)
		os.Exit(64)
	}
	sc := bufio.NewScanner(in)
	sc.Buffer(make([]byte, 1<<20), 1<<28)
	n := 0
	for sc.Scan() {
		line := sc.Bytes()
		if len(strings.TrimSpace(string(line))) == 0 {
			continue
		}
		n++
		if n <= skip {
			continue
		}
		var c Case
		if err := json.Unmarshal(line, &c); err != nil {
			fmt.Fprintf(out, "{\"id\":\"?\",\"parse_err\":%q}\n", "harness: bad case json: "+err.Error())
			continue
		}
		fmt.Fprintf(out, "{\"start\":%q}\n", c.ID)
		fmt.Fprintf(os.Stderr, "CASE %s\n", c.ID)
		res := runCase(&c)
		b, err := json.Marshal(res)
		if err != nil {
			b, _ = json.Marshal(map[string]string{"id": c.ID, "parse_err": "harness: cannot marshal result: " + err.Error()})
		}
		_, _ = out.Write(append(b, '\n'))
		if len(res.Leak) > 0 || len(res.PrepLeak) > 0 {
			// leaked goroutines would pollute the next case: let the driver restart us
			_ = out.Close()
			os.Exit(75)
		}
	}
	_ = out.Close()
}

// poison overwrites returned data in place: every map gets the key "poisoned", bool values are flipped, other scalars become
// the text "POISONED", lists have their elements overwritten.
func poison(v any) {
	switch t := v.(type) {
	case map[string]any:
		for k, e := range t {
			switch ev := e.(type) {
			case map[string]any, map[any]any, []any:
				poison(ev)
			case bool:
				t[k] = !ev
			default:
				t[k] = "POISONED"
			}
		}
		t["poisoned"] = true
	case map[any]any:
		for k, e := range t {
			switch ev := e.(type) {
			case map[string]any, map[any]any, []any:
				poison(ev)
			case bool:
				t[k] = !ev
			default:
				t[k] = "POISONED"
			}
		}
		t["poisoned"] = true
	case []any:
		for i, e := range t {
			switch ev := e.(type) {
			case map[string]any, map[any]any, []any:
				poison(ev)
			case bool:
				t[i] = !ev
			default:
				t[i] = "POISONED"
			}
		}
	}
}
