//go:build verif

package main

import (
	"sort"

	"go.flow.arcalot.io/engine/workflow"
	"go.flow.arcalot.io/pluginsdk/schema"
)

// dumpSchemas records the output schemas (self-serialised) and the namespace table of a prepared workflow.
func dumpSchemas(wf workflow.ExecutableWorkflow, res *Result) {
	outs := map[string]any{}
	for id, o := range wf.OutputSchema() {
		ser, err := schema.DescribeStepOutput().Serialize(o)
		if err != nil {
			outs[id] = map[string]any{"!serialize_error": err.Error()}
			continue
		}
		outs[id] = ser
	}
	res.OutSchema = toJSON(outs)
	ns := map[string][]string{}
	for path, objs := range wf.Namespaces() {
		var ids []string
		for id := range objs {
			ids = append(ids, id)
		}
		sort.Strings(ids)
		ns[path] = ids
	}
	res.Namespaces = ns
}
