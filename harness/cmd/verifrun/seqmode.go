//go:build verif

package main

import (
	"context"
	"encoding/json"
	"strings"

	"go.flow.arcalot.io/engine/internal/builtinfunctions"
	"go.flow.arcalot.io/engine/workflow"
)

// seq: several workflows (file sets) are parsed, prepared and run one after the other through ONE step registry,
// as one engine instance does when it is used for several workflows. extra.sequence = [{files, input}, ...].
// The result has one run entry per element (tag "seq<i>"); a refusal at parse / prepare time is reported as that
// entry's error with type "parse" / "prepare".
type seqItem struct {
	Files map[string]string `json:"files"`
	Input json.RawMessage   `json:"input"`
	Main  string            `json:"main"`
}

func init() {
	modes["seq"] = func(c *Case, res *Result) {
		var seq []seqItem
		if v, ok := c.Extra["sequence"]; ok {
			if err := json.Unmarshal(v, &seq); err != nil {
				res.ParseErr = "harness: bad sequence: " + err.Error()
				return
			}
		}
		logger := newLogger()
		reg, cfg, err := newRegistry(logger)
		if err != nil {
			res.ParseErr = "harness: " + err.Error()
			return
		}
		forms := []string{}
		// extra.share_executor: one Executor object prepares all elements (otherwise each gets its own, as the loop provider does)
		shareExecutor := false
		if v, ok := c.Extra["share_executor"]; ok {
			_ = json.Unmarshal(v, &shareExecutor)
		}
		var sharedEx workflow.Executor
		for i, it := range seq {
			tag := "seq" + itoa(i)
			files := map[string][]byte{}
			for k, v := range it.Files {
				files[k] = []byte(v)
			}
			mainName := it.Main
			if mainName == "" {
				mainName = "workflow.yaml"
			}
			wf, err := workflow.NewYAMLConverter(reg).FromYAML(files[mainName])
			if err != nil {
				res.Runs = append(res.Runs, RunResult{Tag: tag, Err: err.Error(), ErrType: "parse"})
				forms = append(forms, "")
				continue
			}
			ex := sharedEx
			if ex == nil {
				ex, err = workflow.NewExecutor(logger, cfg, reg, builtinfunctions.GetFunctions())
				if err != nil {
					res.ParseErr = "harness: " + err.Error()
					return
				}
				if shareExecutor {
					sharedEx = ex
				}
			}
			prepared, err := ex.Prepare(wf, files)
			if err != nil {
				res.Runs = append(res.Runs, RunResult{Tag: tag, Err: err.Error(), ErrType: "prepare"})
				forms = append(forms, "")
				continue
			}
			forms = append(forms, canonicalForm(prepared))
			var input any
			if len(it.Input) > 0 {
				dec := json.NewDecoder(strings.NewReader(string(it.Input)))
				dec.UseNumber()
				var raw any
				_ = dec.Decode(&raw)
				input = fromJSON(raw)
			}
			id, data, err := prepared.Execute(context.Background(), input)
			rr := RunResult{Tag: tag, OutID: id}
			if err != nil {
				rr.Err, rr.ErrType = err.Error(), errType(err)
			} else {
				rr.Data = toJSON(data)
			}
			res.Runs = append(res.Runs, rr)
		}
		res.Extra = map[string]any{"forms": forms}
	}
}

func itoa(i int) string {
	b, _ := json.Marshal(i)
	return string(b)
}
