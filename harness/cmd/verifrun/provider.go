//go:build verif

package main

import (
	"encoding/json"
	"fmt"
	"sync"
	"sync/atomic"
	"time"

	"github.com/anishathalye/porcupine"
	"go.flow.arcalot.io/deployer"
	deployerregistry "go.flow.arcalot.io/deployer/registry"
	"go.flow.arcalot.io/engine/internal/step"
	"go.flow.arcalot.io/engine/internal/step/plugin"
	verifsched "go.flow.arcalot.io/engine/internal/verif/sched"
	"go.flow.arcalot.io/engine/internal/verif/splugin"
)

// Action is one environment action of the provider-level harness (C12).
type Action struct {
	Op    string          `json:"op"`    // provide | close | force_close | open | sleep | state | par
	Stage string          `json:"stage"` // provide
	Input json.RawMessage `json:"input"` // provide
	Gate  string          `json:"gate"`  // open
	Ms    int             `json:"ms"`    // sleep
	Par   [][]Action      `json:"par"`   // par: sequences run by concurrent actors
	SkipLin bool          `json:"skip_lin"` // provide with invalid input: not part of the once-only history
	Actor int             `json:"-"`
}

type provOp struct {
	Actor  int
	Stage  string
	OK     bool
	Call   int64
	Return int64
}

type recordingHandler struct {
	closedReturned *atomic.Int64 // seq of first close-return, 0 if none
}

func strp(p *string) any {
	if p == nil {
		return nil
	}
	return *p
}
func anyp(p *any) any {
	if p == nil {
		return nil
	}
	return *p
}

func (h *recordingHandler) OnStageChange(s step.RunningStep, prev *string, prevOut *string, out *any, newStage string, inputAvailable bool, _ *sync.WaitGroup) {
	splugin.Log("cb-enter", "OnStageChange", 0, "", map[string]any{"prev": strp(prev), "prev_out": strp(prevOut), "out": anyp(out), "stage": newStage, "input_available": inputAvailable})
	splugin.Log("cb-exit", "OnStageChange", 0, "", nil)
}
func (h *recordingHandler) OnStepComplete(s step.RunningStep, prev string, prevOut *string, out *any, _ *sync.WaitGroup) {
	splugin.Log("cb-enter", "OnStepComplete", 0, "", map[string]any{"prev": prev, "prev_out": strp(prevOut), "out": anyp(out)})
	splugin.Log("cb-exit", "OnStepComplete", 0, "", nil)
}
func (h *recordingHandler) OnStepStageFailure(s step.RunningStep, stage string, _ *sync.WaitGroup, err error) {
	e := ""
	if err != nil {
		e = err.Error()
	}
	splugin.Log("cb-enter", "OnStepStageFailure", 0, "", map[string]any{"stage": stage, "err": e})
	splugin.Log("cb-exit", "OnStepStageFailure", 0, "", nil)
}

func init() {
	modes["provider"] = func(c *Case, res *Result) {
		var actions []Action
		if v, ok := c.Extra["actions"]; ok {
			if err := json.Unmarshal(v, &actions); err != nil {
				res.ParseErr = "harness: bad actions: " + err.Error()
				return
			}
		}
		src := "P"
		if v, ok := c.Extra["src"]; ok {
			_ = json.Unmarshal(v, &src)
		}
		logger := newLogger()
		dreg := deployerregistry.New(deployer.Any(splugin.NewFactory()))
		pp, err := plugin.New(logger, dreg, map[string]any{"scripted": map[string]any{"deployer_name": "scripted"}})
		if err != nil {
			res.ParseErr = "harness: " + err.Error()
			return
		}
		runnable, err := pp.LoadSchema(map[string]any{"plugin": map[string]any{"src": src, "deployment_type": "scripted"}}, nil)
		if err != nil {
			res.PrepErr = err.Error()
			return
		}
		lc, err := runnable.Lifecycle(map[string]any{})
		if err != nil {
			res.PrepErr = err.Error()
			return
		}
		declared := map[string][]string{}
		for _, st := range lc.Stages {
			outs := []string{}
			for o := range st.Outputs {
				outs = append(outs, o)
			}
			declared[st.ID] = outs
		}
		if c.Plan != nil {
			verifsched.Load(*c.Plan)
		}
		h := &recordingHandler{}
		splugin.Log("start-call", "", 0, "", nil)
		running, err := runnable.Start(map[string]any{}, "run1", h)
		if err != nil {
			res.PrepErr = "start: " + err.Error()
			return
		}
		splugin.Log("start-return", "", 0, "", nil)
		var opsMu sync.Mutex
		var ops []provOp
		closeLike := func(name string, actor int, fn func() error) {
			call := splugin.Log("act-call", name, 0, fmt.Sprint(actor), nil)
			err := fn()
			e := ""
			if err != nil {
				e = err.Error()
			}
			splugin.Log("act-return", name, 0, fmt.Sprint(actor), map[string]any{"err": e, "call": call})
		}
		// Close requests fired at a schedule point come from *another* goroutine (as any caller's would): the step's
		// own goroutine, which is the one passing the point, must not wait for itself.
		// A point may be passed late (during the final close of the case): such a request is not fired any more, and every
		// fired one is waited for before the case ends, so that none of them writes into the event log of the next case.
		var asyncWG sync.WaitGroup
		var asyncMu sync.Mutex
		asyncOff := false
		fire := func(name string, fn func() error) {
			asyncMu.Lock()
			if asyncOff {
				asyncMu.Unlock()
				return
			}
			asyncWG.Add(1)
			asyncMu.Unlock()
			go func() { defer asyncWG.Done(); closeLike(name, 99, fn) }()
		}
		verifsched.RegisterAction("close", func() { fire("close", running.Close) })
		verifsched.RegisterAction("force_close", func() { fire("force_close", running.ForceClose) })
		var runSeq func(seq []Action, actor int)
		runSeq = func(seq []Action, actor int) {
			for _, a := range seq {
				switch a.Op {
				case "provide":
					var input map[string]any
					if len(a.Input) > 0 {
						var raw any
						dec := json.NewDecoder(stringsReader(string(a.Input)))
						dec.UseNumber()
						_ = dec.Decode(&raw)
						if m, ok := fromJSON(raw).(map[string]any); ok {
							input = m
						}
					}
					if input == nil {
						input = map[string]any{}
					}
					call := splugin.Log("act-call", "provide:"+a.Stage, 0, fmt.Sprint(actor), input)
					err := running.ProvideStageInput(a.Stage, input)
					e := ""
					if err != nil {
						e = err.Error()
					}
					ret := splugin.Log("act-return", "provide:"+a.Stage, 0, fmt.Sprint(actor), map[string]any{"err": e, "call": call})
					if !a.SkipLin {
						opsMu.Lock()
						ops = append(ops, provOp{actor, a.Stage, err == nil, call, ret})
						opsMu.Unlock()
					}
				case "close":
					closeLike("close", actor, running.Close)
				case "force_close":
					closeLike("force_close", actor, running.ForceClose)
				case "open":
					splugin.Log("act-call", "open:"+a.Gate, 0, fmt.Sprint(actor), nil)
					splugin.OpenGate(a.Gate)
				case "sleep":
					time.Sleep(time.Duration(a.Ms) * time.Millisecond)
				case "state":
					st, cs := running.State(), running.CurrentStage()
					splugin.Log("state", cs, 0, fmt.Sprint(actor), string(st))
				case "par":
					var wg sync.WaitGroup
					for i, sub := range a.Par {
						wg.Add(1)
						go func(i int, sub []Action) { defer wg.Done(); runSeq(sub, actor*10+i+1) }(i, sub)
					}
					wg.Wait()
				}
			}
		}
		runSeq(actions, 0)
		asyncWG.Wait()
		// let the step settle a little, then always close it so that every case ends with a complete life story
		time.Sleep(10 * time.Millisecond)
		asyncMu.Lock()
		asyncOff = true
		asyncMu.Unlock()
		asyncWG.Wait()
		st0, cs0 := running.State(), running.CurrentStage()
		splugin.Log("state", cs0, 0, "final-before-close", string(st0))
		closeLike("force_close", -1, running.ForceClose)
		st1, cs1 := running.State(), running.CurrentStage()
		splugin.Log("state", cs1, 0, "final", string(st1))
		res.OpenConns = splugin.OpenConns.Load()
		res.OpenExecs = splugin.OpenExecs.Load()
		res.Census0, res.Leak, res.SettleMS = settle(1000)
		// linearizability of the once-only stage inputs (porcupine): partition by stage, state = accepted flag
		type in struct{ Stage string }
		model := porcupine.Model{
			Partition: func(history []porcupine.Operation) [][]porcupine.Operation {
				by := map[string][]porcupine.Operation{}
				for _, o := range history {
					by[o.Input.(in).Stage] = append(by[o.Input.(in).Stage], o)
				}
				var out [][]porcupine.Operation
				for _, v := range by {
					out = append(out, v)
				}
				return out
			},
			Init: func() any { return false },
			Step: func(state, input, output any) (bool, any) {
				accepted := state.(bool)
				if output.(bool) {
					return !accepted, true
				}
				return accepted, accepted
			},
		}
		var pops []porcupine.Operation
		once := map[string]bool{"deploy": true, "enabling": true, "starting": true}
		for _, o := range ops {
			if once[o.Stage] {
				pops = append(pops, porcupine.Operation{ClientId: o.Actor, Input: in{o.Stage}, Call: o.Call, Output: o.OK, Return: o.Return})
			}
		}
		lin := "ok"
		if len(pops) > 0 {
			r, _ := porcupine.CheckOperationsVerbose(model, pops, 20*time.Second)
			switch r {
			case porcupine.Illegal:
				lin = "illegal"
			case porcupine.Unknown:
				lin = "unknown"
			}
		}
		res.Extra = map[string]any{"declared": declared, "linearizable": lin, "provide_ops": len(pops)}
	}
}
