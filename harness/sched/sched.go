//go:build verif

// Package verifsched is the run-time half of the schedule-point instrumentation (DESIGN.md §4).
// The instrumenter splices verifsched.Point("<id>") before synchronisation statements of the
// engine; with no plan loaded a point costs one atomic load.
package verifsched

import (
	"fmt"
	"hash/fnv"
	"runtime"
	"sort"
	"sync"
	"sync/atomic"
	"time"
)

// Site is one (point, hit) at which a plan acts.
type Site struct {
	Point  string `json:"point"`
	Hit    int    `json:"hit"`    // 1-based; 0 = every hit
	Ms     int    `json:"ms"`     // sleep this long (0 with Action == "" means Gosched)
	Action string `json:"action"` // run the registered action instead of sleeping
}

// Plan describes what happens at schedule points.
type Plan struct {
	Record bool   `json:"record"`
	Sites  []Site `json:"sites"`
	// Random multi-site: decision is hash(seed, point, hit#) so it does not depend on arrival order.
	Seed    uint64 `json:"seed"`
	Prob    int    `json:"prob"`    // per-mille probability of acting at a hit
	Choices []int  `json:"choices"` // delays in ms to choose from; -1 = Gosched
	MaxActs int    `json:"max_acts"`
}

var (
	active  atomic.Bool
	mu      sync.Mutex
	plan    Plan
	hits    = map[string]int{}
	acts    int
	actions = map[string]func(){}
	delayed []string
)

// Load installs a plan and clears counters.
func Load(p Plan) {
	mu.Lock()
	plan = p
	hits = map[string]int{}
	acts = 0
	delayed = nil
	mu.Unlock()
	active.Store(p.Record || len(p.Sites) > 0 || p.Prob > 0)
}

// Clear removes the plan.
func Clear() {
	active.Store(false)
	mu.Lock()
	plan = Plan{}
	actions = map[string]func(){}
	mu.Unlock()
}

// RegisterAction names a function a Site can run.
func RegisterAction(name string, fn func()) {
	mu.Lock()
	actions[name] = fn
	mu.Unlock()
}

func h64(seed uint64, point string, hit int) uint64 {
	h := fnv.New64a()
	var b [16]byte
	for i := 0; i < 8; i++ {
		b[i] = byte(seed >> (8 * i))
		b[8+i] = byte(uint64(hit) >> (8 * i))
	}
	_, _ = h.Write(b[:])
	_, _ = h.Write([]byte(point))
	x := h.Sum64()
	x ^= x >> 33
	x *= 0xff51afd7ed558ccd
	x ^= x >> 33
	return x
}

// Point is called by instrumented engine code.
func Point(id string) {
	if !active.Load() {
		return
	}
	mu.Lock()
	hits[id]++
	n := hits[id]
	ms := -2
	var fn func()
	for _, s := range plan.Sites {
		if s.Point == id && (s.Hit == 0 || s.Hit == n) {
			if s.Action != "" {
				fn = actions[s.Action]
			} else {
				ms = s.Ms
				if ms == 0 {
					ms = -1
				}
			}
			break
		}
	}
	if ms == -2 && fn == nil && plan.Prob > 0 && (plan.MaxActs == 0 || acts < plan.MaxActs) {
		x := h64(plan.Seed, id, n)
		if int(x%1000) < plan.Prob && len(plan.Choices) > 0 {
			ms = plan.Choices[int((x>>20)%uint64(len(plan.Choices)))]
			acts++
		}
	}
	if ms != -2 || fn != nil {
		if len(delayed) < 64 {
			delayed = append(delayed, fmt.Sprintf("%s@%d=%d", id, n, ms))
		}
	}
	mu.Unlock()
	if fn != nil {
		fn()
		return
	}
	switch {
	case ms == -1:
		runtime.Gosched()
	case ms > 0:
		time.Sleep(time.Duration(ms) * time.Millisecond)
	}
}

// Hits returns the hit counts, sorted by point id.
func Hits() (ids []string, counts []int) {
	mu.Lock()
	defer mu.Unlock()
	for id := range hits {
		ids = append(ids, id)
	}
	sort.Strings(ids)
	for _, id := range ids {
		counts = append(counts, hits[id])
	}
	return
}

// Delayed returns the points at which the plan acted (first 64).
func Delayed() []string {
	mu.Lock()
	defer mu.Unlock()
	return append([]string(nil), delayed...)
}
