//go:build verif

package main

import (
	"encoding/json"
	"os"

	"go.flow.arcalot.io/deployer"
	deployerregistry "go.flow.arcalot.io/deployer/registry"
	"go.flow.arcalot.io/engine"
	"go.flow.arcalot.io/engine/internal/verif/splugin"
)

// Overlaid into cmd/arcaflow by the verification build: the real command line program, with the scripted
// deployer registered instead of the container deployers. Plugin behaviour comes from VERIF_SCRIPTS (JSON).
func init() {
	engine.DefaultDeployerRegistry = deployerregistry.New(deployer.Any(splugin.NewFactory()))
	if v := os.Getenv("VERIF_SCRIPTS"); v != "" {
		scripts := map[string]*splugin.Script{}
		if err := json.Unmarshal([]byte(v), &scripts); err == nil {
			for src, sc := range scripts {
				splugin.SetScript(src, sc)
			}
		}
	}
}
