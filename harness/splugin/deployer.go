//go:build verif

package splugin

import (
	"time"
	"context"
	"fmt"
	"io"
	"sync"
	"sync/atomic"

	log "go.arcalot.io/log/v2"
	"go.flow.arcalot.io/deployer"
	"go.flow.arcalot.io/pluginsdk/schema"
)

// DeployScript says how the n-th deployment of a source behaves.
type DeployScript struct {
	Fail     string `json:"fail,omitempty"`      // non-empty: Deploy returns this error
	Gate     string `json:"gate,omitempty"`      // wait for the gate (or ctx) before returning
	BlockCtx bool   `json:"block_ctx,omitempty"` // block until ctx is done, then fail
	Hello    string `json:"hello,omitempty"`     // "", eof, garbage, badversion, badschema
	Schema   string `json:"schema,omitempty"`    // schema variant served by this deployment ("" = script default)
	CloseErr string `json:"close_err,omitempty"` // Close() returns this error (after closing)
	WriteErr bool   `json:"write_err,omitempty"` // engine-side writes fail after hello
	// DelayMs makes Deploy() take this long, ignoring the context (a deployer that cannot be interrupted).
	DelayMs int `json:"delay_ms,omitempty"`
	// WriteErrAfterStart: engine-side writes fail once the step execution has started (a connection that dies mid-run).
	WriteErrAfterStart bool `json:"write_err_after_start,omitempty"`
	// CloseDelayMs makes Close() take this long (a container that is slow to stop): the connection counts as open until then.
	CloseDelayMs int `json:"close_delay_ms,omitempty"`
}

// ExecScript says how a step execution behaves.
type ExecScript struct {
	Outcome  string `json:"outcome,omitempty"`   // success|error|alt|crash|serverfatal|drop|undeclared|illtyped|nildata|hang
	Gate     string `json:"gate,omitempty"`      // wait for this gate after exec-start
	OnCancel string `json:"on_cancel,omitempty"` // error (default) | success | ignore
	Data     any    `json:"data,omitempty"`      // override for the output data
	Msg      string `json:"msg,omitempty"`       // message for crash / error
}

// Script is the behaviour of one plugin source.
type Script struct {
	Schema    string                `json:"schema,omitempty"` // work (default) | nocancel | two
	Deploys   []DeployScript        `json:"deploys,omitempty"`
	Exec      ExecScript            `json:"exec"`
	ExecByTag map[string]ExecScript `json:"exec_by_tag,omitempty"`
}

var (
	scriptMu    sync.Mutex
	scripts     = map[string]*Script{}
	deployCount = map[string]int{}
)

// SetScript installs the script of a source.
func SetScript(src string, s *Script) {
	scriptMu.Lock()
	scripts[src] = s
	scriptMu.Unlock()
}

func scriptFor(src string) (*Script, DeployScript, int) {
	scriptMu.Lock()
	defer scriptMu.Unlock()
	s, ok := scripts[src]
	if !ok {
		s = &Script{}
	}
	deployCount[src]++
	n := deployCount[src]
	var d DeployScript
	if len(s.Deploys) > 0 {
		i := n - 1
		if i >= len(s.Deploys) {
			i = len(s.Deploys) - 1
		}
		d = s.Deploys[i]
	}
	return s, d, n
}

// Config is the deploy-time configuration of the scripted deployer.
type Config struct {
	Tag  string `json:"tag"`
	Fail bool   `json:"fail"`
}

// ConfigSchema is the schema of Config.
var ConfigSchema = schema.NewTypedScopeSchema[*Config](
	schema.NewStructMappedObjectSchema[*Config]("ScriptedConfig", map[string]*schema.PropertySchema{
		"tag":  schema.NewPropertySchema(schema.NewStringSchema(nil, nil, nil), nil, false, nil, nil, nil, schema.PointerTo(`""`), nil),
		"fail": schema.NewPropertySchema(schema.NewBoolSchema(), nil, false, nil, nil, nil, schema.PointerTo("false"), nil),
	}),
)

type factory struct{}

// NewFactory returns the scripted deployer factory (deployment type and name "scripted").
func NewFactory() deployer.ConnectorFactory[*Config]                    { return factory{} }
func (factory) Name() string                                            { return "scripted" }
func (factory) DeploymentType() deployer.DeploymentType                 { return "scripted" }
func (factory) ConfigurationSchema() *schema.TypedScopeSchema[*Config] { return ConfigSchema }
func (factory) Create(c *Config, _ log.Logger) (deployer.Connector, error) {
	return &connector{c}, nil
}

type connector struct{ cfg *Config }

var connCounter atomic.Int64

// OpenConns is the number of deployed and not yet closed plugin connections.
var OpenConns atomic.Int64

// OpenExecs is the number of plugin-side step executions that have started and not ended.
var OpenExecs atomic.Int64

func (c *connector) Deploy(ctx context.Context, src string) (deployer.Plugin, error) {
	sc, ds, nth := scriptFor(src)
	Log("deploy-call", src, 0, "", map[string]any{"tag": c.cfg.Tag, "fail": c.cfg.Fail, "nth": int64(nth)})
	if ds.Gate != "" {
		select {
		case <-Gate(ds.Gate):
		case <-ctx.Done():
			Log("deploy-fail", src, 0, "", "ctx done at gate")
			return nil, fmt.Errorf("scripted deployer: context done while deploying %s", src)
		}
	}
	if ds.BlockCtx {
		<-ctx.Done()
		Log("deploy-fail", src, 0, "", "ctx done (blocking deploy)")
		return nil, fmt.Errorf("scripted deployer: context done while deploying %s", src)
	}
	if ds.DelayMs > 0 {
		time.Sleep(time.Duration(ds.DelayMs) * time.Millisecond)
	}
	if ds.Fail != "" || c.cfg.Fail {
		msg := ds.Fail
		if msg == "" {
			msg = "deploy config requested failure"
		}
		Log("deploy-fail", src, 0, "", msg)
		return nil, fmt.Errorf("scripted deploy failure for %s: %s", src, msg)
	}
	stdinR, stdinW := io.Pipe()   // engine writes -> plugin reads
	stdoutR, stdoutW := io.Pipe() // plugin writes -> engine reads
	id := connCounter.Add(1)
	p := &conn{id: id, src: src, r: stdoutR, w: stdinW, done: make(chan struct{}), closeErr: ds.CloseErr, writeErr: ds.WriteErr, closeDelay: ds.CloseDelayMs, writeErrAfterStart: ds.WriteErrAfterStart}
	OpenConns.Add(1)
	Log("deploy-ok", src, id, "", map[string]any{"nth": int64(nth)})
	go serve(p, sc, ds, stdinR, stdoutW)
	return p, nil
}

type conn struct {
	id       int64
	src      string
	r        *io.PipeReader
	w        *io.PipeWriter
	once     sync.Once
	wonce    sync.Once
	done     chan struct{}
	closeErr string
	writeErr bool
	closeDelay int
	writeErrAfterStart bool
	started  atomic.Bool
	helloed  atomic.Bool
}

func (p *conn) Read(b []byte) (int, error) { return p.r.Read(b) }
func (p *conn) Write(b []byte) (int, error) {
	if p.writeErrAfterStart && p.started.Load() {
		// the connection no longer takes anything from the engine, but what the plugin says still arrives
		p.wonce.Do(func() { Log("write-fault", p.src, p.id, "", "writes only") })
		return 0, fmt.Errorf("scripted write failure on conn %d", p.id)
	}
	if p.writeErr && p.helloed.Load() {
		// a dead plugin: the engine's writes fail and its reads see EOF
		p.wonce.Do(func() {
			Log("write-fault", p.src, p.id, "", nil)
			_ = p.r.Close()
			_ = p.w.Close()
		})
		return 0, fmt.Errorf("scripted write failure on conn %d", p.id)
	}
	return p.w.Write(b)
}
func (p *conn) ID() string { return fmt.Sprintf("conn-%d", p.id) }
func (p *conn) Close() error {
	first := false
	p.once.Do(func() {
		first = true
		if p.closeDelay > 0 {
			Log("conn-closing", p.src, p.id, "", nil)
			time.Sleep(time.Duration(p.closeDelay) * time.Millisecond)
		}
		Log("conn-close", p.src, p.id, "", nil)
		OpenConns.Add(-1)
		_ = p.r.Close()
		_ = p.w.Close()
	})
	<-p.done // nothing of the plugin survives Close
	_ = first
	if p.closeErr != "" {
		// every attempt to close reports the error (like a container engine answering "no such container")
		return fmt.Errorf("%s", p.closeErr)
	}
	return nil
}
