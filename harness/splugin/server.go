//go:build verif

package splugin

import (
	"fmt"
	"io"
	"sync"

	"github.com/fxamacker/cbor/v2"
	"go.flow.arcalot.io/pluginsdk/atp"
	"go.flow.arcalot.io/pluginsdk/plugin"
	"go.flow.arcalot.io/pluginsdk/schema"
)

func obj(id string, props map[string]*schema.PropertySchema) *schema.ScopeSchema {
	return schema.NewScopeSchema(schema.NewObjectSchema(id, props))
}
func prop(t schema.Type, required bool) *schema.PropertySchema {
	return schema.NewPropertySchema(t, nil, required, nil, nil, nil, nil, nil)
}
func str() schema.Type { return schema.NewStringSchema(nil, nil, nil) }

func nested() *schema.ObjectSchema {
	return schema.NewObjectSchema("Nested", map[string]*schema.PropertySchema{
		"s": prop(str(), true),
		"i": prop(schema.NewIntSchema(nil, nil, nil), false),
	})
}

func workStep(id string, withCancel bool, tagType schema.Type) *schema.StepSchema {
	return workStepGrown(id, withCancel, tagType, false)
}

// workStepGrown: with grown, the success output has one more (optional) property, `attempts` - a later release of the
// same plugin whose input is unchanged.
func workStepGrown(id string, withCancel bool, tagType schema.Type, grown bool) *schema.StepSchema {
	st := workStepBase(id, withCancel, tagType)
	if grown {
		st.OutputsValue["success"].SchemaValue.Objects()["WorkSuccess"].PropertiesValue["attempts"] = prop(schema.NewIntSchema(nil, nil, nil), false)
	}
	return st
}

func workStepBase(id string, withCancel bool, tagType schema.Type) *schema.StepSchema {
	handlers := map[string]*schema.SignalSchema{}
	if withCancel {
		handlers[plugin.CancellationSignalSchema.ID()] = plugin.CancellationSignalSchema
	}
	return schema.NewStepSchema(
		id,
		schema.NewScopeSchema(schema.NewObjectSchema("WorkInput", map[string]*schema.PropertySchema{
			"tag": prop(tagType, true),
			"n":   prop(schema.NewIntSchema(nil, nil, nil), false),
			"f":   prop(schema.NewFloatSchema(nil, nil, nil), false),
			"b":   prop(schema.NewBoolSchema(), false),
			"l":   prop(schema.NewListSchema(str(), nil, nil), false),
			"o":   prop(schema.NewRefSchema("Nested", nil), false),
			"a":   prop(schema.NewAnySchema(), false),
		}), nested()),
		map[string]*schema.StepOutputSchema{
			"success": schema.NewStepOutputSchema(schema.NewScopeSchema(schema.NewObjectSchema("WorkSuccess", map[string]*schema.PropertySchema{
				"tag": prop(str(), true),
				"n":   prop(schema.NewIntSchema(nil, nil, nil), false),
				"f":   prop(schema.NewFloatSchema(nil, nil, nil), false),
				"b":   prop(schema.NewBoolSchema(), false),
				"l":   prop(schema.NewListSchema(str(), nil, nil), false),
				"o":   prop(schema.NewRefSchema("Nested", nil), false),
				"a":   prop(schema.NewAnySchema(), false),
			}), nested()), nil, false),
			"error": schema.NewStepOutputSchema(obj("WorkError", map[string]*schema.PropertySchema{
				"reason": prop(str(), true),
			}), nil, true),
			"alt": schema.NewStepOutputSchema(obj("WorkAlt", map[string]*schema.PropertySchema{
				"tag": prop(str(), true),
			}), nil, false),
		},
		handlers,
		map[string]*schema.SignalSchema{},
		nil,
	)
}

// PluginSchema returns the schema variant.
func PluginSchema(variant string) *schema.SchemaSchema {
	steps := map[string]*schema.StepSchema{}
	switch variant {
	case "nocancel":
		steps["work"] = workStep("work", false, str())
	case "two":
		steps["work"] = workStep("work", true, str())
		steps["other"] = workStep("other", true, str())
	case "mismatch":
		steps["work"] = workStep("work", true, schema.NewIntSchema(nil, nil, nil))
	case "renamed":
		steps["renamed"] = workStep("renamed", true, str())
	case "grown":
		steps["work"] = workStepGrown("work", true, str(), true)
	case "patterned":
		// the success output has a property of the type `pattern` (its typed form is a compiled expression, its serialized
		// form the text)
		st := workStep("work", true, str())
		st.OutputsValue["success"].SchemaValue.Objects()["WorkSuccess"].PropertiesValue["pat"] = prop(schema.NewPatternSchema(), false)
		steps["work"] = st
	case "more-outputs":
		// a later release that declares (and, with the outcome "undeclared", returns) an output the earlier one did not have
		st := workStep("work", true, str())
		st.OutputsValue["nonsense"] = schema.NewStepOutputSchema(obj("WorkNonsense", map[string]*schema.PropertySchema{
			"x": prop(schema.NewIntSchema(nil, nil, nil), true),
		}), nil, false)
		steps["work"] = st
	default:
		steps["work"] = workStep("work", true, str())
	}
	return schema.NewSchema(steps).(*schema.SchemaSchema)
}

func toInt(v any) (int64, bool) {
	switch n := v.(type) {
	case int64:
		return n, true
	case uint64:
		return int64(n), true
	case int:
		return int64(n), true
	}
	return 0, false
}

// SuccessData is the deterministic function every scripted step applies to its input.
func SuccessData(src string, in map[string]any) map[string]any {
	out := map[string]any{"tag": fmt.Sprintf("%s(%v)", src, in["tag"])}
	if n, ok := toInt(in["n"]); ok {
		out["n"] = n + 1
	}
	for _, k := range []string{"f", "b", "l", "o", "a"} {
		if v, ok := in[k]; ok && v != nil {
			out[k] = v
		}
	}
	return out
}

func serve(p *conn, sc *Script, ds DeployScript, in *io.PipeReader, out *io.PipeWriter) {
	defer close(p.done)
	defer in.Close()
	defer out.Close()
	dec := cbor.NewDecoder(in)
	enc := cbor.NewEncoder(out)
	var encMu sync.Mutex
	send := func(v any) error { encMu.Lock(); defer encMu.Unlock(); return enc.Encode(v) }

	var empty any
	if err := dec.Decode(&empty); err != nil {
		Log("conn-eof", p.src, p.id, "", "before-hello")
		return
	}
	variant := sc.Schema
	if ds.Schema != "" {
		variant = ds.Schema
	}
	switch ds.Hello {
	case "eof":
		Log("hello-fault", p.src, p.id, "", "eof")
		return
	case "garbage":
		Log("hello-fault", p.src, p.id, "", "garbage")
		_, _ = out.Write([]byte{0xff, 0xff, 0xff, 0x00, 0x13, 0x37})
		return
	case "badversion":
		Log("hello-fault", p.src, p.id, "", "badversion")
		ser, _ := PluginSchema(variant).SelfSerialize()
		_ = send(atp.HelloMessage{Version: 99, Schema: ser})
	case "badschema":
		Log("hello-fault", p.src, p.id, "", "badschema")
		_ = send(atp.HelloMessage{Version: atp.ProtocolVersion, Schema: map[string]any{"steps": "nonsense"}})
	default:
		ser, err := PluginSchema(variant).SelfSerialize()
		if err != nil {
			panic(err)
		}
		Log("schema-read", p.src, p.id, "", variant)
		if err := send(atp.HelloMessage{Version: atp.ProtocolVersion, Schema: ser}); err != nil {
			return
		}
	}
	p.helloed.Store(true)
	var wg sync.WaitGroup
	defer wg.Wait()
	cancelCh := make(chan struct{}, 16)
	closed := make(chan struct{})
	defer close(closed)
	for {
		var msg atp.DecodedRuntimeMessage
		if err := dec.Decode(&msg); err != nil {
			Log("conn-eof", p.src, p.id, "", "loop")
			return
		}
		switch msg.MessageID {
		case atp.MessageTypeWorkStart:
			var ws atp.WorkStartMessage
			_ = cbor.Unmarshal(msg.RawMessageData, &ws)
			runID := msg.RunID
			wg.Add(1)
			OpenExecs.Add(1)
			go func() {
				defer wg.Done()
				defer OpenExecs.Add(-1)
				execute(p, sc, variant, runID, ws, send, cancelCh, closed, in, out)
			}()
		case atp.MessageTypeSignal:
			var sm atp.SignalMessage
			_ = cbor.Unmarshal(msg.RawMessageData, &sm)
			Log("signal", p.src, p.id, msg.RunID, sm.SignalID)
			if sm.SignalID == plugin.CancellationSignalSchema.ID() {
				select {
				case cancelCh <- struct{}{}:
				default:
				}
			}
		case atp.MessageTypeClientDone:
			Log("client-done", p.src, p.id, "", nil)
			return
		}
	}
}

func execute(p *conn, sc *Script, variant string, runID string, ws atp.WorkStartMessage, send func(any) error,
	cancelCh chan struct{}, closed chan struct{}, in *io.PipeReader, out *io.PipeWriter) {
	// Like a plugin built with the SDK, validate and normalise the received input with the step's own input schema.
	// "raw" is what crossed the boundary; "input" is its normalised form (typed values, defaults filled in).
	input := map[string]any{}
	inputErr := ""
	if st, ok := PluginSchema(variant).Steps()[ws.StepID]; !ok {
		inputErr = "no such step: " + ws.StepID
	} else if unser, err := st.Input().Unserialize(ws.Config); err != nil {
		inputErr = err.Error()
	} else if ser, err := st.Input().Serialize(unser); err != nil {
		inputErr = "cannot serialize: " + err.Error()
	} else if m, ok := ser.(map[string]any); ok {
		input = m
	}
	if inputErr != "" {
		Log("exec-start", p.src, p.id, runID, map[string]any{"step": ws.StepID, "raw": ws.Config, "input_error": inputErr})
		Log("exec-end", p.src, p.id, runID, map[string]any{"crash": "invalid input"})
		_ = send(atp.RuntimeMessage{MessageID: atp.MessageTypeError, RunID: runID, MessageData: atp.ErrorMessage{Error: "invalid input: " + inputErr, StepFatal: true}})
		return
	}
	p.started.Store(true)
	Log("exec-start", p.src, p.id, runID, map[string]any{"step": ws.StepID, "input": input, "raw": ws.Config})
	if tag, ok := input["tag"].(string); ok && len(tag) < 64 {
		// lets a trigger select the execution that belongs to one particular run (C14)
		for _, part := range tagParts(tag) {
			Log("exec-start-tag:"+part, p.src, p.id, runID, nil)
		}
	}
	es := sc.Exec
	if tag, ok := input["tag"].(string); ok {
		if o, ok := sc.ExecByTag[tag]; ok {
			es = o
		}
	}
	outcome := es.Outcome
	if outcome == "" {
		outcome = "success"
	}
	cancelled := false
	onCancel := func() (string, bool) { // returns the outcome after a cancel signal; false = keep waiting for close
		switch es.OnCancel {
		case "ignore":
			return "", false
		case "success":
			return "success", true
		default:
			return "cancelled-error", true
		}
	}
	wait := func(ch <-chan struct{}) bool { // true = proceed, false = aborted by close
		for {
			select {
			case <-ch:
				return true
			case <-cancelCh:
				cancelled = true
				if o, ok := onCancel(); ok {
					outcome = o
					return true
				}
				// ignoring cancel: only a close ends us, unless the gate opens
				cancelCh = nil
			case <-closed:
				return false
			}
		}
	}
	if es.Gate != "" {
		if !wait(Gate(es.Gate)) {
			Log("exec-end", p.src, p.id, runID, map[string]any{"aborted": true})
			return
		}
	}
	if outcome == "hang" {
		if !wait(nil) {
			Log("exec-end", p.src, p.id, runID, map[string]any{"aborted": true})
			return
		}
	}
	_ = cancelled
	var outID string
	var outData any
	msg := es.Msg
	switch outcome {
	case "success":
		outID, outData = "success", SuccessData(p.src, input)
		if variant == "patterned" {
			if m, ok := outData.(map[string]any); ok {
				m["pat"] = "^a+[0-9]{2}$"
			}
		}
		if variant == "grown" {
			if m, ok := outData.(map[string]any); ok {
				m["attempts"] = int64(3)
			}
		}
	case "error":
		if msg == "" {
			msg = "scripted error from " + p.src
		}
		outID, outData = "error", map[string]any{"reason": msg}
	case "cancelled-error":
		outID, outData = "error", map[string]any{"reason": "cancelled " + p.src}
	case "alt":
		outID, outData = "alt", map[string]any{"tag": fmt.Sprintf("%s(%v)", p.src, input["tag"])}
	case "undeclared":
		outID, outData = "nonsense", map[string]any{"x": int64(1)}
	case "illtyped":
		outID, outData = "success", map[string]any{"tag": int64(42), "n": "not-a-number"}
	case "nildata":
		outID, outData = "success", nil
	case "crash":
		if msg == "" {
			msg = "scripted crash of " + p.src
		}
		Log("exec-end", p.src, p.id, runID, map[string]any{"crash": msg})
		_ = send(atp.RuntimeMessage{MessageID: atp.MessageTypeError, RunID: runID, MessageData: atp.ErrorMessage{Error: msg, StepFatal: true}})
		return
	case "serverfatal":
		Log("exec-end", p.src, p.id, runID, map[string]any{"crash": "serverfatal"})
		_ = send(atp.RuntimeMessage{MessageID: atp.MessageTypeError, RunID: runID, MessageData: atp.ErrorMessage{Error: "scripted server-fatal", ServerFatal: true}})
		return
	case "drop":
		Log("exec-end", p.src, p.id, runID, map[string]any{"crash": "drop"})
		_ = out.Close()
		_ = in.Close()
		return
	}
	if es.Data != nil {
		outData = es.Data
	}
	Log("exec-end", p.src, p.id, runID, map[string]any{"id": outID, "data": outData})
	_ = send(atp.RuntimeMessage{MessageID: atp.MessageTypeWorkDone, RunID: runID, MessageData: atp.WorkDoneMessage{StepID: ws.StepID, OutputID: outID, OutputData: outData}})
}

// tagParts returns the run tags (R<digits>x) occurring in a provenance string.
func tagParts(tag string) []string {
	var out []string
	for i := 0; i < len(tag); i++ {
		if tag[i] == 'R' {
			j := i + 1
			for j < len(tag) && tag[j] >= '0' && tag[j] <= '9' {
				j++
			}
			if j > i+1 && j < len(tag) && tag[j] == 'x' {
				out = append(out, tag[i:j+1])
			}
		}
	}
	return out
}
