//go:build verif

// Package splugin is the observation boundary of the verification harness: a scripted deployer, a
// hand-written in-process ATP v3 plugin, and the process-wide event log all monitors read.
// It is compiled into the engine module through a build overlay (see /verif/DESIGN.md §2, §3).
package splugin

import (
	"sync"
	"time"
)

// Event is one observation at the plugin/deployer/API boundary.
type Event struct {
	Seq  int64  `json:"seq"`
	Kind string `json:"kind"`
	Src  string `json:"src"`
	Conn int64  `json:"conn,omitempty"`
	Run  string `json:"run,omitempty"`
	Data any    `json:"data,omitempty"`
	// T is the monotonic time of the event in milliseconds since process start. It is informational
	// (and the input of C06's stated time bound); no other oracle reads it.
	T float64 `json:"t"`
}

var t0 = time.Now()

// Trigger runs a registered action when the matching event is appended to the log.
// A trigger matches either an absolute sequence number (Seq > 0) or the Nth event of (Kind, Src).
type Trigger struct {
	Seq    int64  `json:"seq"`
	Kind   string `json:"kind"`
	Src    string `json:"src"`
	Nth    int    `json:"nth"`
	Action string `json:"action"`
	fired  bool
	count  int
}

var (
	logMu    sync.Mutex
	events   []Event
	seq      int64
	triggers []*Trigger
	actions  = map[string]func(){}
	gates    = map[string]chan struct{}{}
	gateOpen = map[string]bool{}
)

// Reset clears the log, triggers, gates, scripts and counters. Called between cases.
func Reset() {
	logMu.Lock()
	events = nil
	seq = 0
	triggers = nil
	actions = map[string]func(){}
	gates = map[string]chan struct{}{}
	gateOpen = map[string]bool{}
	logMu.Unlock()
	scriptMu.Lock()
	scripts = map[string]*Script{}
	deployCount = map[string]int{}
	scriptMu.Unlock()
}

// Log appends an event and fires matching triggers (after releasing the log lock).
func Log(kind, src string, conn int64, run string, data any) int64 {
	logMu.Lock()
	seq++
	s := seq
	events = append(events, Event{Seq: s, Kind: kind, Src: src, Conn: conn, Run: run, Data: data, T: float64(time.Since(t0).Microseconds()) / 1000})
	var fire []string
	for _, t := range triggers {
		if t.fired {
			continue
		}
		if t.Seq > 0 {
			if t.Seq == s {
				t.fired = true
				fire = append(fire, t.Action)
			}
			continue
		}
		if t.Kind == kind && (t.Src == "" || t.Src == src) {
			t.count++
			n := t.Nth
			if n <= 0 {
				n = 1
			}
			if t.count == n {
				t.fired = true
				fire = append(fire, t.Action)
			}
		}
	}
	var fns []func()
	for _, a := range fire {
		seq++
		events = append(events, Event{Seq: seq, Kind: "trigger", Src: a, Data: s, T: float64(time.Since(t0).Microseconds()) / 1000})
		if len(a) > 5 && a[:5] == "open:" {
			name := a[5:]
			fns = append(fns, func() { OpenGate(name) })
		} else if fn, ok := actions[a]; ok {
			fns = append(fns, fn)
		}
	}
	logMu.Unlock()
	for _, fn := range fns {
		fn()
	}
	return s
}

// Events returns a copy of the log.
func Events() []Event {
	logMu.Lock()
	defer logMu.Unlock()
	return append([]Event(nil), events...)
}

// AddTrigger registers a trigger.
func AddTrigger(t Trigger) {
	logMu.Lock()
	tt := t
	triggers = append(triggers, &tt)
	logMu.Unlock()
}

// RegisterAction names a function triggers can run.
func RegisterAction(name string, fn func()) {
	logMu.Lock()
	actions[name] = fn
	logMu.Unlock()
}

// Gate returns the channel that is closed when the named gate opens.
func Gate(name string) <-chan struct{} {
	logMu.Lock()
	defer logMu.Unlock()
	return gateLocked(name)
}

func gateLocked(name string) chan struct{} {
	g, ok := gates[name]
	if !ok {
		g = make(chan struct{})
		gates[name] = g
	}
	return g
}

// OpenGate opens the named gate (idempotent).
func OpenGate(name string) {
	logMu.Lock()
	g := gateLocked(name)
	if !gateOpen[name] {
		gateOpen[name] = true
		close(g)
	}
	logMu.Unlock()
}
